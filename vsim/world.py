"""World generation, materialisation and the small reference models used as oracles' ground
truth.  Nothing here imports the code under test."""
import os
import re
import sys

from . import simrt

UNIT = 'zope.testrunner.layer.UnitTests'
PKG = simrt.PKG
HOOKS = ('setUp', 'tearDown', 'testSetUp', 'testTearDown')

DEFAULT_PROFILE = dict(
    min_layers=1, max_layers=5, p_inst=0.3, p_hook=0.75, max_bases=3,
    max_modules=2, max_classes=3, max_tests=4, p_unit=0.2, p_level=0.06, p_suite_tree=0.35,
    p_subtests=0.12, p_deco_skip=0.08, p_deco_xfail=0.08, p_setup=0.5, p_teardown=0.5,
    p_cleanup=0.2, p_layer_as_str=0.1, p_suite_layer=0.3, max_total_tests=12,
)


def profile(**kw):
    p = dict(DEFAULT_PROFILE)
    p.update(kw)
    return p


# ---------------------------------------------------------------------------------------
# generation


def gen_layers(rng, p):
    n = rng.randint(p['min_layers'], p['max_layers'])
    layers = []
    # adversarial naming: dotted names that are prefixes / substrings of each other
    family = None
    r = rng.random()
    if r < p.get('p_prefix_names', 0.25):
        family = rng.sample(['K', 'KA', 'KAB', 'KB', 'K_', 'Kx1', 'AK', 'KAK'], min(n, 8))
    elif r < p.get('p_prefix_names', 0.25) + p.get('p_punct_names', 0.12):
        # names continuing another one after a non-word character (plone.testing style
        # 'Fixture:Functional'): a word-boundary match still confuses them
        family = rng.sample(['Fx', 'Fx:Func', 'Fx-2', 'Fx:Func:More', 'Fx~', 'aFx', 'Fx@db',
                             'Fx:'], min(n, 8))
    for i in range(n):
        kind = 'inst' if rng.random() < p['p_inst'] else 'class'
        cands = [L['name'] for L in layers if kind == 'inst' or L['kind'] == 'class']
        nb = 0
        if cands:
            r = rng.random()
            nb = 0 if r < 0.35 else (1 if r < 0.75 else (2 if r < 0.93 else 3))
            nb = min(nb, len(cands), p['max_bases'])
        bases = rng.sample(cands, nb) if nb else []
        if kind == 'class' and len(bases) >= 2:
            bases = consistent_bases(layers, bases)
        hooks = [h for h in HOOKS if rng.random() < p['p_hook']]
        name = family[i] if family and i < len(family) else 'L%d' % i
        layers.append({'name': name, 'kind': kind, 'bases': bases, 'hooks': hooks})
        if kind == 'inst' and rng.random() < p.get('p_falsy_layer', 0.12):
            layers[-1]['falsy'] = True
    if rng.random() < p.get('p_zz_module', 0.1):
        # some layers live in a module whose dotted names sort after the unit-test layer's
        for L in layers:
            if rng.random() < 0.6:
                L['mod'] = simrt.ZZMOD
    return layers


def consistent_bases(layers, bases):
    """Largest prefix-wise subset of `bases` (in this order) for which type() finds an MRO;
    redundant bases are kept when Python allows them (derived before its ancestor)."""
    idx = {L['name']: L for L in layers}
    built = {}

    def cls(n):
        if n not in built:
            L = idx[n]
            bs = tuple(cls(b) for b in L['bases'] if idx[b]['kind'] == 'class')
            built[n] = type(n, bs or (object,), {})
        return built[n]
    out = []
    for b in bases:
        try:
            type('_probe', tuple(cls(x) for x in out + [b]), {})
            out.append(b)
        except TypeError:
            continue
    return out


def _closure_of(layers, name):
    idx = {L['name']: L for L in layers}
    out = set()

    def rec(n):
        if n in out:
            return
        out.add(n)
        for b in idx[n]['bases']:
            rec(b)
    rec(name)
    return out


def gen_modules(rng, p, layers):
    lnames = [L['name'] for L in layers]
    modules = []
    total = 0
    nm = rng.randint(1, p['max_modules'])
    for mi in range(nm):
        classes = []
        nc = rng.randint(1, p['max_classes'])
        for ci in range(nc):
            if total >= p['max_total_tests']:
                break
            nt = rng.randint(1, p['max_tests'])
            nt = min(nt, p['max_total_tests'] - total)
            tests = []
            for ti in range(nt):
                t = {'name': 'test_%s' % 'abcdefgh'[ti]}
                r = rng.random()
                if r < p['p_deco_skip']:
                    t['deco'] = 'skip'
                elif r < p['p_deco_skip'] + p['p_deco_xfail']:
                    t['deco'] = 'xfail'
                elif r < p['p_deco_skip'] + p['p_deco_xfail'] + p['p_subtests']:
                    t['subtests'] = rng.randint(1, 3)
                tests.append(t)
            total += nt
            c = {'name': 'TC%d' % ci, 'tests': tests}
            if lnames and rng.random() >= p['p_unit']:
                c['layer'] = rng.choice(lnames)
                if rng.random() < p['p_layer_as_str']:
                    c['layer_as_str'] = True
            if rng.random() < p['p_level']:
                c['level'] = rng.choice([0, 1, 2, 3, -1])
            if rng.random() < p['p_setup']:
                c['setup'] = True
            if rng.random() < p['p_teardown']:
                c['teardown'] = True
            if rng.random() < p['p_cleanup']:
                c['cleanup'] = True
            classes.append(c)
        if not classes:
            continue
        m = {'name': 'test_m%d' % mi, 'classes': classes}
        if rng.random() < p.get('p_doctest', 0.0):
            m['doctests'] = []
            for di in range(rng.randint(1, 2)):
                dt = {'name': 'dt%d' % di, 'examples': rng.randint(1, 3)}
                if lnames and rng.random() < 0.5:
                    dt['layer'] = rng.choice(lnames)
                m['doctests'].append(dt)
        if rng.random() < p['p_suite_tree']:
            m['suite'] = gen_suite_tree(rng, p, classes, lnames)
        modules.append(m)
    return modules


def gen_suite_tree(rng, p, classes, lnames, depth=0):
    leaves = []
    for c in classes:
        if rng.random() < 0.6:
            leaves.append({'cls': c['name']})
        else:
            for t in c['tests']:
                leaves.append({'cls': c['name'], 'test': t['name']})
    rng.shuffle(leaves)

    def build(items, depth):
        node = {'children': []}
        if depth < 3 and len(items) > 1 and rng.random() < 0.6:
            k = rng.randint(1, len(items) - 1)
            node['children'].append(build(items[:k], depth + 1))
            node['children'].extend(items[k:] if rng.random() < 0.5
                                    else [build(items[k:], depth + 1)])
        else:
            node['children'].extend(items)
        if lnames and rng.random() < p['p_suite_layer']:
            node['layer'] = rng.choice(lnames)
        if rng.random() < p['p_level']:
            node['level'] = rng.choice([0, 1, 2, 3])
        return node
    return build(leaves, 0)


def gen_world(rng, p):
    layers = gen_layers(rng, p)
    modules = gen_modules(rng, p, layers)
    return {'layers': layers, 'modules': modules}


# ---------------------------------------------------------------------------------------
# materialisation


LAST_ROOT = None


def materialise(world, root):
    """Write the stub source tree; returns the directory to pass as --path."""
    global LAST_ROOT
    LAST_ROOT = root
    src = os.path.join(root, 'src')
    pkg = os.path.join(src, PKG)
    tests = os.path.join(pkg, 'tests')
    os.makedirs(tests, exist_ok=True)
    _w(os.path.join(pkg, '__init__.py'), '')
    _w(os.path.join(pkg, 'layers.py'), simrt.LAYERS_STUB)
    _w(os.path.join(src, simrt.ZZMOD + '.py'), simrt.ZZ_STUB)
    _w(os.path.join(tests, '__init__.py'), '')
    os.makedirs(os.path.join(root, 'xml'), exist_ok=True)    # target of --xml
    for m in world['modules']:
        _w(os.path.join(tests, m['name'] + '.py'), simrt.TESTS_STUB)
    return src


def _w(path, text):
    with open(path, 'w') as f:
        f.write(text)


# ---------------------------------------------------------------------------------------
# reference models


class Model:
    def __init__(self, world):
        self.world = world
        self.layers = {L['name']: L for L in world['layers']}

    def full(self, lname):
        if lname is None:
            return UNIT
        return (self.layers[lname].get('mod') or simrt.LAYERMOD) + '.' + lname

    def short(self, full):
        return None if full == UNIT else full.rsplit('.', 1)[-1]

    def closure(self, lname):
        """The layer and its transitive bases (short names)."""
        if lname is None:
            return set()
        out = set()

        def rec(n):
            if n in out:
                return
            out.add(n)
            for b in self.layers[n]['bases']:
                rec(b)
        rec(lname)
        return out

    def is_base(self, a, b):
        """a is a (transitive, proper) base of b."""
        return a != b and a in self.closure(b)

    def has_hook(self, lname, hook):
        L = self.layers[lname]
        if hook in (L.get('c_raise') or []):
            return False       # fails at the call: overrides anything inherited, leaves no event
        if hook in L['hooks']:
            return True
        if L['kind'] == 'class':
            # class layers inherit hooks (the classmethod is then called with the derived
            # class): the first class in the MRO that defines the attribute decides
            for n in self.mro(lname)[1:]:
                B = self.layers[n]
                if hook in (B.get('c_raise') or []):
                    return False
                if hook in B['hooks']:
                    return True
        return False

    def mro(self, lname):
        """Names of the class layers in lname's method resolution order."""
        if not hasattr(self, '_mro'):
            self._mro, built = {}, {}

            def cls(n):
                if n not in built:
                    bs = tuple(cls(b) for b in self.layers[n]['bases']
                               if self.layers[b]['kind'] == 'class')
                    built[n] = type(n, bs or (object,), {'_n': n})
                return built[n]
            for n, L_ in self.layers.items():
                if L_['kind'] == 'class':
                    self._mro[n] = [c._n for c in cls(n).__mro__ if c is not object]
        return self._mro.get(lname, [lname])

    def discover(self):
        """All tests in discovery order: dicts with tid, sid, layer (short or None), level."""
        out = []
        for m in sorted(self.world['modules'], key=lambda m: m['name']):
            modname = '%s.tests.%s' % (PKG, m['name'])
            classes = {c['name']: c for c in m['classes']}

            def emit(c, t, layer, level):
                tid = '%s.%s.%s' % (modname, c['name'], t['name'])
                sid = '%s%s (%s.%s.%s)' % (t['name'], t.get('idx', ''), modname, c['name'],
                                           t['name'])
                out.append({'tid': tid, 'sid': sid, 'layer': layer, 'level': level,
                            't': t, 'c': c, 'module': modname})

            def cls_leaf(c, names, layer, level):
                if c.get('layer') is not None:
                    layer = c['layer']
                if c.get('level') is not None:
                    level = c['level']
                for t in sorted([t for t in c['tests'] if names is None or t['name'] in names],
                                key=lambda t: t['name']):
                    emit(c, t, layer, level)

            def walk(node, layer, level):
                if 'cls' in node:
                    c = classes[node['cls']]
                    cls_leaf(c, [node['test']] if 'test' in node else None, layer, level)
                    return
                if node.get('layer') is not None:
                    layer = node['layer']
                if node.get('level') is not None:
                    level = node['level']
                for ch in node['children']:
                    walk(ch, layer, level)

            if m.get('suite') is not None:
                walk(m['suite'], None, 1)
            else:
                for cname in sorted(classes):
                    cls_leaf(classes[cname], None, None, 1)
            for dt in m.get('doctests') or []:
                tid = '%s.%s' % (modname, dt['name'])
                out.append({'tid': tid, 'sid': '%s (%s)' % (dt['name'], modname),
                            'layer': dt.get('layer'), 'level': 1,
                            't': {'name': dt['name'], 'doctest': dt['examples']}, 'c': {},
                            'module': modname})
        return out

    def select(self, opt, import_failed=()):
        """Expected tests per layer full name, in discovery order (before shuffling)."""
        t_pats, m_pats = list(opt.get('t') or []), list(opt.get('m') or [])
        pos = opt.get('positional') or []
        # the deprecated positional filters: [module filter [test filter]]; '.' = no module
        # filter; they are added to the -m / -t patterns
        if pos and pos[0]:
            if pos[0] != '.':
                m_pats.append(pos[0])
            if len(pos) > 1 and pos[1]:
                t_pats.append(pos[1])
        accept_t = filtering_func(t_pats or ['.'])
        accept_m = filtering_func(m_pats or ['.'])
        at_level = opt.get('at_level', 1)
        if opt.get('all'):
            at_level = sys.maxsize
        only = opt.get('only_level')
        unit, non_unit = bool(opt.get('unit')), bool(opt.get('non_unit'))
        if unit and non_unit:
            unit = non_unit = False
        layer_pats = list(opt.get('layer') or [])
        if unit:
            layer_pats = [UNIT]
        accept_l = filtering_func(layer_pats) if layer_pats else (lambda n: True)
        by_layer = {}
        for d in self.discover():
            if d['module'] in import_failed or not accept_m(d['module']):
                continue
            lvl = d['level']
            if only is None:
                ok = at_level <= 0 or lvl <= at_level
            else:
                ok = lvl == only
            if not ok or not accept_t(d['sid']):
                continue
            lf = self.full(d['layer'])
            if lf == UNIT:
                if non_unit:
                    continue
                if layer_pats and not accept_l(UNIT):
                    continue
            elif not accept_l(lf):
                continue
            by_layer.setdefault(lf, []).append(d)
        return by_layer


def filtering_func(patterns):
    """Specification of the pattern predicate (C08's statement)."""
    pos = [re.compile(p) for p in patterns if not p.startswith('!')]
    neg = [re.compile(p[1:]) for p in patterns if p.startswith('!')]

    def accept(name):
        if pos:
            if not any(r.search(name) for r in pos):
                return False
        elif not neg:
            return False
        return not any(r.search(name) for r in neg)
    return accept


def predict_test(t, raised):
    """Model of unittest.TestCase.run (CPython 3.12): result events of one test occurrence.

    raised: {phase: exception name} for the phases that raise on this occurrence.
    Returns dict(started, events=[(kind, subject)], phases=[...phases executed...]).
    kinds: success skip failure error xfail usuccess; subject: 'test' or 'sub#i'.
    """
    ev = []
    phases = []
    if t.get('doctest'):
        # doctest: every example runs; any exception in an example is a failure of the test
        phases = ['ex#%d' % i for i in range(t['doctest'])]
        bad = any(raised.get(ph) for ph in phases)
        return {'started': True, 'events': [('failure' if bad else 'success', 'test')],
                'phases': phases}
    if t.get('deco') == 'skip':
        return {'started': False, 'events': [('skip', 'test')], 'phases': []}
    st = {'success': True, 'expected': None}

    def part(phase, subject='test', expecting=False, sub=False):
        phases.append(phase)
        exc = raised.get(phase)
        old = st['success']
        st['success'] = True
        ok = True
        if exc is not None:
            ok = False
            if exc == 'SkipTest':
                st['success'] = False
                ev.append(('skip', subject))
            elif expecting:
                st['expected'] = exc
            else:
                st['success'] = False
                ev.append(('failure' if exc == 'AssertionError' else 'error', subject))
        st['success'] = st['success'] and old
        return ok

    c_setup = t.get('_setup')
    c_teardown = t.get('_teardown')
    c_cleanup = t.get('_cleanup')
    expecting = t.get('deco') == 'xfail'
    ok = True
    if c_setup:
        ok = part('setUp')
    if st['success']:
        # the body
        nsub = t.get('subtests', 0)
        if nsub == 0:
            part('body', expecting=expecting)
        else:
            # body hook, subtests and the end hook all live in one testPartExecutor
            phases.append('body')
            exc = raised.get('body')
            old = st['success']
            st['success'] = True
            if exc is not None:
                _top(ev, st, exc, expecting)
            else:
                stop = False
                for i in range(nsub):
                    ph = 'sub#%d' % i
                    phases.append(ph)
                    e2 = raised.get(ph)
                    old2 = st['success']
                    st['success'] = True
                    if e2 is not None:
                        if e2 == 'SkipTest':
                            st['success'] = False
                            ev.append(('skip', ph))
                        elif expecting:
                            st['expected'] = e2
                            stop = True
                        else:
                            st['success'] = False
                            ev.append(('failure' if e2 == 'AssertionError' else 'error', ph))
                    st['success'] = st['success'] and old2
                    if stop:
                        break
                if not stop:
                    phases.append('bodyend')
                    e3 = raised.get('bodyend')
                    if e3 is not None:
                        _top(ev, st, e3, expecting)
            st['success'] = st['success'] and old
        if c_teardown:
            part('tearDown')
    if c_cleanup:
        part('cleanup')
    if st['success']:
        if expecting:
            if st['expected']:
                ev.append(('xfail', 'test'))
            else:
                ev.append(('usuccess', 'test'))
        else:
            ev.append(('success', 'test'))
    return {'started': True, 'events': ev, 'phases': phases}


def _top(ev, st, exc, expecting):
    if exc == 'SkipTest':
        st['success'] = False
        ev.append(('skip', 'test'))
    elif expecting:
        st['expected'] = exc
    else:
        st['success'] = False
        ev.append(('failure' if exc == 'AssertionError' else 'error', 'test'))


def with_class_flags(d):
    """testspec copy carrying its class' setUp/tearDown/cleanup flags."""
    t = dict(d['t'])
    c = d['c']
    t['_setup'] = bool(c.get('setup'))
    t['_teardown'] = bool(c.get('teardown'))
    t['_cleanup'] = bool(c.get('cleanup'))
    return t


# ---------------------------------------------------------------------------------------
# options


def argv(opt, src):
    """Structured options -> command line (without argv[0])."""
    a = []
    if opt.get('relpath'):
        src = os.path.relpath(src, os.path.dirname(src))     # relative to the start directory
    if opt.get('path_via_test_path'):
        a += ['--test-path', src]
    else:
        a += ['--path', src]
    for p in opt.get('package') or []:
        a += ['-s', p]
    for p in opt.get('t') or []:
        a += ['-t', p]
    for p in opt.get('m') or []:
        a += ['-m', p]
    for p in opt.get('layer') or []:
        a += ['--layer', p]
    if opt.get('unit'):
        a.append('-u')
    if opt.get('non_unit'):
        a.append('-f')
    if 'at_level' in opt:
        a += ['--at-level=%d' % opt['at_level']]
    if opt.get('all'):
        a.append('--all')
    if opt.get('only_level') is not None:
        a += ['--only-level=%d' % opt['only_level']]
    if opt.get('v'):
        a.append('-' + 'v' * opt['v'])
    if opt.get('progress'):
        a.append('-p')
    if opt.get('x'):
        a.append('-x')
    if opt.get('buffer'):
        a.append('--buffer')
    if opt.get('pm'):
        a.append('-D')
    if opt.get('repeat'):
        a += ['--repeat', str(opt['repeat'])]
    if opt.get('shuffle'):
        a.append('--shuffle')
    if opt.get('shuffle_seed') is not None:
        a += ['--shuffle', '--shuffle-seed', str(opt['shuffle_seed'])]
    if opt.get('j'):
        a.append('-j%d' % opt['j'])
    if opt.get('list'):
        a.append('--list-tests')
    if opt.get('gc_after_test'):
        a.append('--gc-after-test')
    if opt.get('color'):
        a.append('-c')
    if opt.get('xml'):
        a += ['--xml', os.path.join(os.path.dirname(src), 'xml')]
    for x in opt.get('extra') or []:
        a.append(x)
    if opt.get('positional'):
        if opt.get('dashdash'):
            a.append('--')
        a += list(opt['positional'])
    return a


def split_defaults(tokens, rng, p=0.5):
    """Move some option groups from the command line into the `defaults` list (which the
    runner hands to its children as --default arguments).  Returns (defaults, args)."""
    groups = []
    i = 0
    takes_value = {'--path', '--test-path', '-t', '-m', '--layer', '--repeat', '--shuffle-seed',
                   '--ignore_dir', '--tests-pattern', '--test-file-pattern', '-s', '--xml'}
    tail = []
    if '--' in tokens:
        # positional filters behind a '--' stay where they are
        k = tokens.index('--')
        tokens, tail = tokens[:k], tokens[k:]
    while i < len(tokens):
        if tokens[i] in takes_value and i + 1 < len(tokens):
            groups.append(tokens[i:i + 2])
            i += 2
        else:
            groups.append(tokens[i:i + 1])
            i += 1
    defaults, args = [], []
    for g in groups:
        # -j / --list-tests / --shuffle stay on the command line (they describe this run)
        if g[0].startswith('-j') or g[0] in ('--list-tests', '--shuffle') \
                or g[0].startswith('--shuffle-seed') or not g[0].startswith('-'):
            args += g
        elif rng.random() < p:
            defaults += g
        else:
            args += g
    return defaults, args + tail
