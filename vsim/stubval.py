"""Stub-validation tier: the same spec under the simulator and with every seam removed (real
subprocess.Popen of fresh interpreters, real threads, pipes and signals).  The schedule-independent
observables must agree; a disagreement is a HARNESS error (the stubs misrepresent the system),
never a VIOLATION."""
import json
import os
import subprocess
import sys

from . import common as C
from . import core
from . import truth as TR
from . import world as W


def real_execute(spec, options, scratch, timeout=60):
    specf = os.path.join(scratch, 'spec.json')
    tracef = os.path.join(scratch, 'trace.jsonl')
    with open(specf, 'w') as f:
        json.dump(spec, f)
    if os.path.exists(tracef):
        os.unlink(tracef)
    env = dict(os.environ, VERIF_SPEC_FILE=specf, VERIF_TRACE_FILE=tracef,
               PYTHONDONTWRITEBYTECODE='1', PYTHONWARNINGS='ignore')
    p = subprocess.run([sys.executable, '-B', core.CHILD_SCRIPT] + list(options),
                       env=env, cwd=scratch, capture_output=True, timeout=timeout)
    trace = []
    if os.path.exists(tracef):
        with open(tracef) as f:
            for line in f:
                line = line.strip()
                if line:
                    trace.append(json.loads(line))
    return {'exit': p.returncode, 'stdout': p.stdout.decode('utf-8', 'replace'),
            'stderr': p.stderr.decode('utf-8', 'replace'), 'trace': trace}


def observables(m, T, text, verdict):
    ex = {}
    for o in T.occs:
        ex.setdefault((o['tid'], o['occ']), []).append(tuple(o['events']))
    lay = {}
    for o in T.occs:
        lay.setdefault(o['pid'], set()).add(o['layer'])
    tot = C.TOTAL_RE.findall(text)
    return {
        'verdict': bool(verdict),
        'executed': sorted((k, sorted(map(repr, v))) for k, v in ex.items()),
        'layers_per_process': sorted(sorted(map(str, v)) for p, v in lay.items() if p != 0),
        'total': tuple(tot[-1]) if tot else None,
        'failures': sorted(C.parse_name_block(text, 'Tests with failures:')),
        'errors': sorted(C.parse_name_block(text, 'Tests with errors:')),
        'ran_lines': sorted(C.RAN_RE.findall(text)),
    }


def run(spec, ctx, pid):
    src = W.materialise(spec['world'], ctx.scratch)
    m = W.Model(spec['world'])
    opt = dict(spec['opt'])
    opt['v'] = max(1, opt.get('v', 1))      # the name lists are only printed with -v
    argv = W.argv(opt, src)
    sim = core.execute(spec, argv)
    Ts = TR.Truth(m, sim.trace)
    real = real_execute(spec, argv, ctx.scratch)
    Tr = TR.Truth(m, real['trace'])
    a = observables(m, Ts, sim.text, sim.verdict)
    b = observables(m, Tr, core.ANSI_RE.sub('', real['stdout']), real['exit'] != 0)
    if sim.raised or sim.hang:
        raise core.HarnessError('stub validation: simulated run aborted: %r'
                                % (sim.raised or sim.hang,))
    diffs = [k for k in a if a[k] != b[k]]
    if diffs:
        raise core.HarnessError(
            'STUB DISAGREEMENT on %r for options %r:\n simulated: %r\n real:      %r\n'
            'real stdout tail: %s\nreal stderr tail: %s'
            % (diffs, argv, {k: a[k] for k in diffs}, {k: b[k] for k in diffs},
               real['stdout'][-600:], real['stderr'][-600:]))
    fired = C.fired_kinds(sim.trace)
    return {'violations': [], 'digest': core.digest_of(sim, ctx.norm),
            'shape': C.shape_of(spec, [sim], extra='stubval'),
            'nontrivial': True, 'faults': fired,
            'probes': {'stub_validated_runs': 1, 'stub_disagreements': 0,
                       'stubval_children': len(sim.children)},
            'modes': ['stubval'], 'steps': sim.sched['steps'], 'simtime': sim.sched['simtime'],
            'execs': 2}


def specs(gen, base_seed, n):
    """n specs of a property's own generator, restricted to faults that also exist for real
    (channel faults are simulated only)."""
    out = []
    k = 0
    while len(out) < n and k < n * 4:
        spec = gen(5000000 + base_seed * 1000 + k)
        k += 1
        spec['plan'] = [e for e in spec['plan'] if e['site'] != 'channel']
        for knob in ('worker_write_error', 'thread_start_fail', 'stdout_write_fail',
                     'main_thread_start_fail', 'stderr_read_error'):
            (spec.get('knobs') or {}).pop(knob, None)      # (faults of the simulated world only)
        spec['opt'].pop('pm', None)          # (a real -D run would wait for a terminal)
        spec['opt'].pop('relpath', None)
        spec['stubval'] = True
        out.append(spec)
    return out
