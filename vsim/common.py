"""Helpers shared by the property modules: trace slicing, fault-plan generation, output parsing,
shape digests."""
import hashlib
import json
import re

from . import world as W

TEST_EXC_BAD = ['AssertionError', 'ValueError', 'KeyError', 'CustomError', 'SystemExit',
                'TypeError', 'OSError', 'Unhashable']
TEST_EXC_ALL = TEST_EXC_BAD + ['SkipTest']


def by_pid(trace):
    out = {}
    for ev in trace:
        out.setdefault(ev[0], []).append(ev)
    return out


def occurrences(events):
    """Split one pid's events into test occurrences (test.run .. test.ran brackets)."""
    occs = []
    outside = []
    cur = None
    for i, ev in enumerate(events):
        site = ev[1]
        if site in ('test.run', 'test.debug'):
            # (test.debug .. test.debugged: -D, where the runner drives test.debug() itself)
            if cur is not None:
                cur['open'] = True
                occs.append(cur)
            cur = {'tid': ev[2], 'occ': ev[3], 'events': [], 'flags_run': ev[4], 'index': i,
                   'open': False, 'debug': site == 'test.debug'}
        elif site in ('test.ran', 'test.debugged'):
            if cur is not None:
                cur['flags_ran'] = ev[4]
                cur['end_index'] = i
                occs.append(cur)
                cur = None
            else:
                outside.append(ev)
        elif cur is not None:
            cur['events'].append(ev)
        else:
            outside.append(ev)
    if cur is not None:
        cur['open'] = True
        occs.append(cur)
    return occs, outside


def phase_of(ev):
    site, ident = ev[1], ev[2]
    if site == 'test.sub':
        return 'sub#' + ident.rsplit('#', 1)[1]
    if site == 'test.ex':
        return 'ex#' + ident.rsplit('#', 1)[1]
    if site.startswith('test.'):
        return site[5:]
    return None


def raised_map(occ):
    """{phase: exception name} for the phases of this occurrence where a fault raised."""
    out = {}
    last = None
    for ev in occ['events']:
        if ev[1] == 'fault':
            if ev[2].startswith('raise:') and last is not None:
                ph = phase_of(last)
                if ph is not None:
                    out[ph] = ev[2][6:]
        else:
            last = ev
    return out


def fired_kinds(trace):
    out = {}
    for ev in trace:
        if ev[1] == 'fault':
            k = ev[2]
            out[k] = out.get(k, 0) + 1
    return out


def test_phases(d):
    """Phases of a discovered test at which a fault can be injected."""
    t, c = d['t'], d['c']
    if t.get('doctest'):
        return ['ex#%d' % i for i in range(t['doctest'])]
    if t.get('deco') == 'skip':
        return []
    ph = ['body']
    if c.get('setup'):
        ph.append('setUp')
    if c.get('teardown'):
        ph.append('tearDown')
    if c.get('cleanup'):
        ph.append('cleanup')
    for i in range(t.get('subtests', 0)):
        ph.append('sub#%d' % i)
    if t.get('subtests', 0):
        ph.append('bodyend')
    return ph


def fault_entry(d, phase, action):
    if phase.startswith('sub#'):
        e = {'site': 'test.sub', 'ident': '%s#%s' % (d['tid'], phase[4:])}
    elif phase.startswith('ex#'):
        e = {'site': 'test.ex', 'ident': '%s#%s' % (d['tid'], phase[3:])}
    else:
        e = {'site': 'test.' + phase, 'ident': d['tid']}
    e.update(action)
    return e


def gen_test_faults(rng, disc, n, excs=TEST_EXC_ALL, p_occ=0.0):
    plan = []
    cands = [d for d in disc if test_phases(d)]
    if not cands:
        return plan
    for _ in range(n):
        d = rng.choice(cands)
        ph = rng.choice(test_phases(d))
        exc = rng.choice(excs)
        if d['t'].get('doctest') and exc == 'SkipTest':
            exc = 'ValueError'
        e = fault_entry(d, ph, {'a': 'raise', 'exc': exc})
        if rng.random() < p_occ:
            e['occ'] = rng.randint(0, 1)
        plan.append(e)
    return plan


# ---------------------------------------------------------------------------------------
# output parsing

# (the colour formatter words it "errors, N skipped")
RAN_RE = re.compile(r'^  Ran (\d+) tests with (\d+) failures, (\d+) errors(?: and|,) (\d+) '
                    r'skipped in ', re.M)
TOTAL_RE = re.compile(r'^Total: (\d+) tests, (\d+) failures, (\d+) errors(?: and|,) (\d+) '
                      r'skipped in ', re.M)
RUNNING_RE = re.compile(r'^Running (\S+) tests:$', re.M)
LISTING_RE = re.compile(r'^Listing (\S+) tests:$', re.M)


def parse_listing(text):
    """--list-tests output -> [(layer, [sid...])]"""
    groups = []
    cur = None
    for line in text.split('\n'):
        m = LISTING_RE.match(line)
        if m:
            cur = (m.group(1), [])
            groups.append(cur)
        elif cur is not None and line.startswith('  '):
            cur[1].append(line[2:])
    return groups


def parse_name_block(text, header, indent='   '):
    """Names listed under 'Tests with errors:' / 'Tests with failures:' (three blanks) or
    'Test-modules with import problems:' (two)."""
    out = []
    lines = text.split('\n')
    for i, line in enumerate(lines):
        if line == header:
            j = i + 1
            while j < len(lines) and lines[j].startswith(indent):
                out.append(lines[j][len(indent):])
                j += 1
    return out


# ---------------------------------------------------------------------------------------


def shape_of(spec, results, extra=None):
    """Structural digest of a sim-run: per-pid hook-site sequence (runs collapsed), fired
    faults, child completion order, option keys."""
    h = hashlib.sha256()
    for res in results:
        seq = []
        last = None
        for ev in res.trace:
            k = (ev[0], ev[1] if ev[1] != 'fault' else ev[2])
            if k != last:
                seq.append(k)
                last = k
        h.update(json.dumps(seq).encode())
        order = res.sched['exit_order']
        first = {}
        for n in order:
            first.setdefault(n, len(first))
        h.update(json.dumps([first[n] for n in order]).encode())
        h.update(json.dumps(sorted(res.fired)).encode())
        h.update(repr(res.verdict).encode())
    h.update(json.dumps(sorted((spec.get('opt') or {}).keys())).encode())
    if extra is not None:
        h.update(json.dumps(extra, sort_keys=True).encode())
    return h.hexdigest()[:16]


def merge_counts(*dicts):
    out = {}
    for d in dicts:
        for k, v in d.items():
            out[k] = out.get(k, 0) + v
    return out


def sample_of(spec, res, maxlen=4000):
    return {'spec': spec, 'options': res.options, 'verdict': res.verdict,
            'trace_head': res.trace[:60], 'output_tail': res.text[-maxlen:],
            'sched_log_head': [list(x) for x in res.sched['log'][:40]]}


def viol(sig, msg):
    return {'sig': sig, 'msg': msg}
