"""Runtime that the generated worlds call into.

A world's source files are stubs: `layers.py` calls populate_layers(globals()), every test module
calls populate_tests(globals()).  All behaviour comes from the *plan*: every hook of every layer
and test calls hook(site, ident), which appends an event to the trace and then asks the plan what
the environment does at this (site, ident, n-th occurrence).
"""
import os
import signal
import sys
import unittest

PKG = 'wpkg'
LAYERMOD = PKG + '.layers'
ZZMOD = 'zzlayers'      # a second home for layers: its dotted names sort after 'zope.testrunner...'


class CustomError(Exception):
    pass


class BadStr(Exception):
    def __str__(self):
        raise RuntimeError('str() of this exception fails')


class StreamWrapper:
    """What a test may wrap a std stream in for the rest of the process."""

    def __init__(self, stream):
        self._stream = stream

    def write(self, data):
        return self._stream.write(data)

    def __getattr__(self, name):
        return getattr(self._stream, name)


class Unhashable(Exception):
    """A legal exception class that cannot be put into a set (defines __eq__, no __hash__)."""

    def __eq__(self, other):
        return self is other

    __hash__ = None


def _syntax_error(msg):
    """A SyntaxError as compile()/import of generated source raises it: its traceback text
    carries a location line (File "...", line N) without the usual ", in <name>"."""
    return SyntaxError(msg, ('<generated>', 3, 7, 'x = (1 +\n', 3, 9))


EXC = {
    'ValueError': ValueError, 'KeyError': KeyError, 'AssertionError': AssertionError,
    'CustomError': CustomError, 'BadStr': BadStr, 'NotImplementedError': NotImplementedError,
    'SkipTest': unittest.SkipTest, 'SystemExit': SystemExit,
    'KeyboardInterrupt': KeyboardInterrupt, 'OSError': OSError, 'TypeError': TypeError,
    'MemoryError': MemoryError, 'Unhashable': Unhashable, 'SyntaxError': _syntax_error,
    'AttributeError': AttributeError, 'LookupError': LookupError, 'RuntimeError': RuntimeError,
}

# event flag bits
F_STDOUT_ORIG = 1
F_STDERR_ORIG = 2


class RT:
    def __init__(self, world, plan, simpid=0, sink=None):
        self.world = world
        self.plan = plan
        self.simpid = simpid
        self.sink = sink          # callable(event) in a child: event goes onto the tape
        self.trace = []
        self.counters = {}
        self.index = {}
        for i, e in enumerate(plan):
            self.index.setdefault((e['site'], e['ident']), []).append((i, e))
        self.orig_stdout = None
        self.orig_stderr = None
        self.real_stderr = None   # child's protocol stream (sys.__stderr__ stand-in)
        self.extra = {}           # engine-specific state (threads, ...)

    def emit(self, ev):
        if self.sink is not None:
            self.sink(ev)
        else:
            self.trace.append(ev)


rt = None


class _Worker:
    """A thread of the world that exists before any test starts (a layer's server or pool
    thread, something a test module started at import) and does printing jobs for the tests."""

    def __init__(self):
        import queue
        import threading
        self.q = queue.Queue()
        self.t = threading.Thread(target=self._loop, daemon=True, name='world-worker')
        self.t.start()

    def _loop(self):
        while True:
            fn, done = self.q.get()
            try:
                fn()
            except BaseException:  # noqa
                pass
            finally:
                done.set()

    def do(self, fn):
        import threading
        done = threading.Event()
        self.q.put((fn, done))
        done.wait(20)


worker = None


def install(world, plan, simpid=0, sink=None):
    global rt, worker
    rt = RT(world, plan, simpid, sink)
    worker = None
    if any(e.get('a') == 'write' and str(e.get('stream', '')).startswith('thread.')
           for e in plan):
        worker = _Worker()       # (per process: threads do not survive a fork)
    return rt


def hook(site, ident):
    r = rt
    key = (site, ident)
    occ = r.counters.get(key, 0)
    r.counters[key] = occ + 1
    flags = 0
    if sys.stdout is r.orig_stdout:
        flags |= F_STDOUT_ORIG
    if sys.stderr is r.orig_stderr:
        flags |= F_STDERR_ORIG
    r.emit([r.simpid, site, ident, occ, flags])
    entries = r.index.get(key)
    wild = r.index.get((site, '*'))
    if wild:
        entries = (entries or []) + wild
    if not entries:
        return
    for i, e in entries:
        o = e.get('occ')
        if o is not None and o != occ:
            continue
        w = e.get('where')
        if w == 'child' and r.simpid == 0:
            continue
        if w == 'parent' and r.simpid != 0:
            continue
        # order-dependent behaviour: only once another test has run in this process
        aft = e.get('after')
        if aft is not None and not r.counters.get(('test.run', aft)):
            continue
        _act(r, i, e, occ)


def _act(r, i, e, occ):
    a = e['a']
    if a == 'write':
        st = e['stream']
        text = e['text'].replace('%o', str(occ))
        r.emit([r.simpid, 'fault', 'write:' + st, i, 0])
        if st == 'stdout':
            sys.stdout.write(text)
        elif st == 'stderr':
            sys.stderr.write(text)
        elif st == 'stdout.buffer':
            # (optionally followed by bytes that are not valid UTF-8: binary data, Latin-1 text)
            sys.stdout.buffer.write(text.encode('utf-8') + bytes.fromhex(e.get('hex', '')))
        elif st == 'stderr.buffer':
            sys.stderr.buffer.write(text.encode('utf-8') + bytes.fromhex(e.get('hex', '')))
        elif st == 'print':
            print(text, end='')
        elif st in ('thread.stdout', 'thread.stderr'):
            # the test hands a printing job to a thread that existed before the test started;
            # it writes to whatever sys.stdout / sys.stderr is at that moment
            name = st[7:]
            if worker is not None:
                worker.do(lambda: getattr(sys, name).write(text))
            else:
                getattr(sys, name).write(text)
        elif st == 'realstderr.bytes':
            # raw bytes on fd 2 of the child (a C library, a helper process, Latin-1 text)
            if r.real_stderr is not None:
                r.real_stderr.buffer.write(bytes.fromhex(e['hex']))
                r.real_stderr.flush()
        elif st == 'realstderr':
            # the child's protocol channel (fd 2 of a real child)
            if r.real_stderr is not None:
                r.real_stderr.write(text)
                r.real_stderr.flush()
        return
    if a == 'raise':
        r.emit([r.simpid, 'fault', 'raise:' + e['exc'], i, 0])
        raise EXC[e['exc']]('injected#%d' % i)
    if a == 'die':
        if r.simpid == 0:
            return
        r.emit([r.simpid, 'fault', 'die:' + e['how'], i, 0])
        how = e['how']
        if how == 'sysexit':
            # the child ends by an exception that is no Exception (sys.exit() in a hook, ^C)
            raise SystemExit(e.get('code', 0))
        if how == 'kbdint':
            raise KeyboardInterrupt()
        if how == 'exit0':
            os._exit(0)
        if how == 'exit3':
            os._exit(3)
        if how == 'kill':
            os.kill(os.getpid(), signal.SIGKILL)
        if how == 'segv':
            signal.signal(signal.SIGSEGV, signal.SIG_DFL)
            os.kill(os.getpid(), signal.SIGSEGV)
        os._exit(9)
    if a == 'nested_run':
        # a test of test infrastructure: drives another in-process run of the runner (as the
        # runner's own tests do); when that run is over the std streams must again be the
        # objects it found - here the OUTER run's capture streams
        r.emit([r.simpid, 'fault', 'nested_run', i, 0])
        before = sys.stdout, sys.stderr
        try:
            _nested_run(e)
        finally:
            if sys.stdout is not before[0] or sys.stderr is not before[1]:
                r.emit([r.simpid, 'fault', 'nested_not_restored', i, 0])
        return
    if a == 'stash_stdout':
        # something started by a test remembers the std streams it finds (a helper thread
        # entering contextlib.redirect_stdout, a mock.patch that is stopped later) ...
        r.emit([r.simpid, 'fault', 'stash_stdout', i, 0])
        r.extra['stash'] = (sys.stdout, sys.stderr)
        return
    if a == 'reinstall_stdout':
        # ... and puts them back at a later moment: in a later test, or in a layer's per-test
        # hook between two tests
        if 'stash' in r.extra:
            r.emit([r.simpid, 'fault', 'reinstall_stdout', i, 0])
            sys.stdout, sys.stderr = r.extra.pop('stash')
        return
    if a == 'close_stdout':
        # a test that closes sys.stdout (under --buffer: the runner's capture stream)
        r.emit([r.simpid, 'fault', 'replace_stdout', i, 0])
        sys.stdout.close()
        return
    if a == 'swap_stdout':
        # a tidy test: remembers sys.stdout, installs its own stream, and puts back what it
        # remembered in a later phase (which, under --buffer, is the runner's capture buffer)
        import io
        r.emit([r.simpid, 'fault', 'replace_stdout', i, 0])
        if e.get('step') == 'save':
            r.extra['saved_stdout'] = sys.stdout
            sys.stdout = io.StringIO()
        elif 'saved_stdout' in r.extra:
            sys.stdout = r.extra.pop('saved_stdout')
        return
    if a == 'replace_stdout':
        # a sloppy test: points sys.stdout (or sys.stderr) at a stream of its own and never
        # puts the old one back
        import io
        r.emit([r.simpid, 'fault', 'replace_stdout', i, 0])
        if e.get('which', 'stdout') == 'stdout':
            sys.stdout = io.StringIO()
        else:
            sys.stderr = io.StringIO()
        return
    if a == 'wrap_stdout':
        # a test installs a process-wide wrapper around the std streams and leaves it there
        # (colorama.init(), a logging tee): from now on THAT is the stream everybody expects
        if sys.stdout is r.orig_stdout and sys.stderr is r.orig_stderr:
            r.emit([r.simpid, 'fault', 'wrap_stdout', i, 0])
            sys.stdout = r.orig_stdout = StreamWrapper(sys.stdout)
            sys.stderr = r.orig_stderr = StreamWrapper(sys.stderr)
        return
    if a == 'argv_append':
        # a test that changes sys.argv in place (code under test with a main(), an option parser
        # that pops its arguments) and does not put it back
        r.emit([r.simpid, 'fault', 'argv_append', i, 0])
        sys.argv += list(e.get('args') or [])
        return
    if a == 'chdir':
        # a test (or a test module at import) that changes the working directory for good
        r.emit([r.simpid, 'fault', 'chdir', i, 0])
        os.chdir(e.get('to', '/'))
        return
    if a == 'call':
        # engine specific callback (threads etc.)
        r.emit([r.simpid, 'fault', 'call:' + e['fn'], i, 0])
        r.extra['calls'][e['fn']](e)
        return
    raise RuntimeError('unknown plan action %r' % (a,))


def _nested_run(e):
    rmod = sys.modules['zope.testrunner.runner']
    Runner = rmod.Runner
    if Runner.__name__.endswith('RecordingRunner'):
        Runner = Runner.__mro__[1]        # the runner's own class: the harness records the outer

    class Inner(unittest.TestCase):
        def test_inner(self):
            sys.stdout.write('inner-out\n')
            sys.stderr.write('inner-err')
            if e.get('inner_replaces') and e.get('buffer', True):
                # (only a buffered run is responsible for what its tests leave installed)
                import io
                sys.stdout = io.StringIO()

    suite = unittest.defaultTestLoader.loadTestsFromTestCase(Inner)
    args = ['nested', '-k'] + (['--buffer'] if e.get('buffer', True) else [])
    Runner([], args, found_suites=[suite]).run()


# ---------------------------------------------------------------------------------------
# layers


class InstLayer:
    """A layer that is an instance (has __name__/__bases__/__module__ of its own)."""

    def __init__(self, name, bases):
        self.__name__ = name
        self.__module__ = LAYERMOD
        self.__bases__ = tuple(bases)

    def __repr__(self):
        return '<InstLayer %s>' % self.__name__


class FalsyInstLayer(InstLayer):
    """A layer object that is falsy (a registry-like object with __len__ == 0): nothing in
    the layer contract says a layer must be true."""

    def __len__(self):
        return 0


def _cls_hook(h):
    site = 'layer.' + h

    def fn(cls):
        hook(site, cls.__name__)
    fn.__name__ = h
    return classmethod(fn)


def _inst_hook(h, name):
    site = 'layer.' + h

    def fn():
        hook(site, name)
    fn.__name__ = h
    return fn


def populate_layers(g):
    objs = {}
    for L in rt.world['layers']:
        name = L['name']
        bases = tuple(objs[b] for b in L['bases'])
        import functools
        # a hook that fails at the call itself (a C callable, a wrong signature): no frame of
        # the hook's own ever enters the traceback, nothing of it is observable in the trace
        c_raise = functools.partial(int, 'not-a-number')
        home = L.get('mod') or LAYERMOD
        if L['kind'] == 'class':
            ns = {'__module__': home}
            for h in L['hooks']:
                ns[h] = _cls_hook(h)
            for h in L.get('c_raise') or []:
                ns[h] = staticmethod(c_raise)
            obj = type(name, bases or (object,), ns)
        else:
            obj = (FalsyInstLayer if L.get('falsy') else InstLayer)(name, bases)
            obj.__module__ = home
            for h in L['hooks']:
                setattr(obj, h, _inst_hook(h, name))
            for h in L.get('c_raise') or []:
                setattr(obj, h, c_raise)
        objs[name] = obj
        g[name] = obj
    rt.extra['layer_objs'] = objs
    hook('module.import', LAYERMOD)


def populate_zz(g):
    """The module 'zzlayers': the layers of the world that live there (created with the rest)."""
    import importlib
    importlib.import_module(LAYERMOD)
    for L in rt.world['layers']:
        if L.get('mod') == ZZMOD:
            g[L['name']] = rt.extra['layer_objs'][L['name']]


def layer_module(world, lname):
    for L in world['layers']:
        if L['name'] == lname:
            return L.get('mod') or LAYERMOD
    return LAYERMOD


# ---------------------------------------------------------------------------------------
# tests


def _tid(self):
    return self.id()


def _make_test(t):
    nsub = t.get('subtests', 0)

    def body(self):
        tid = self.id()
        hook('test.body', tid)
        for i in range(nsub):
            with self.subTest(i=i):
                hook('test.sub', '%s#%d' % (tid, i))
        if nsub:
            hook('test.bodyend', tid)
    body.__name__ = t['name']
    body.__qualname__ = t['name']
    deco = t.get('deco')
    if deco == 'skip':
        body = unittest.skip('deco-skip')(body)
    elif deco == 'xfail':
        body = unittest.expectedFailure(body)
    return body


def _make_class(modname, c, layers):
    ns = {'__module__': modname}
    if c.get('setup') or c.get('cleanup'):
        has_setup = c.get('setup')
        has_cleanup = c.get('cleanup')

        def setUp(self):
            if has_cleanup:
                self.addCleanup(hook, 'test.cleanup', self.id())
            if has_setup:
                hook('test.setUp', self.id())
        ns['setUp'] = setUp
    if c.get('teardown'):
        def tearDown(self):
            hook('test.tearDown', self.id())
        ns['tearDown'] = tearDown
    def run(self, result=None):
        tid = self.id()
        hook('test.run', tid)
        try:
            return unittest.TestCase.run(self, result)
        finally:
            hook('test.ran', tid)
    ns['run'] = run

    def debug(self):
        # (-D: the runner calls startTest / test.debug() / stopTest itself, not test.run())
        tid = self.id()
        hook('test.debug', tid)
        try:
            return unittest.TestCase.debug(self)
        finally:
            hook('test.debugged', tid)
    ns['debug'] = debug
    if c.get('layer') is not None:
        if c.get('layer_as_str'):
            ns['layer'] = layer_module(rt.world, c['layer']) + '.' + c['layer']
        else:
            ns['layer'] = layers[c['layer']]
    if c.get('level') is not None:
        ns['level'] = c['level']
    weird = {}
    counts = {}
    for t in c['tests']:
        ns[t['name']] = _make_test(t)
        if t.get('idx'):
            weird[t['name']] = t['idx']
        if t.get('count'):
            counts[t['name']] = t['count']
    if counts:
        # a test object that stands for several test cases (table-driven tests, wrappers around
        # foreign collections): the runner counts countTestCases() for it
        def countTestCases(self):
            return counts.get(self._testMethodName, 1)
        ns['countTestCases'] = countTestCases
    if weird:
        # unusual spellings of test ids (parametrised ids, custom __str__)
        def __str__(self):
            base = unittest.TestCase.__str__(self)
            w = weird.get(self._testMethodName)
            return base if w is None else base.replace(' (', w + ' (', 1)
        ns['__str__'] = __str__
    return type(c['name'], (unittest.TestCase,), ns)


def _build_suite(node, classes, layers):
    if 'cls' in node:
        cls = classes[node['cls']]
        if 'test' in node:
            return cls(node['test'])
        s = unittest.defaultTestLoader.loadTestsFromTestCase(cls)
        return s
    s = unittest.TestSuite()
    for ch in node['children']:
        s.addTest(_build_suite(ch, classes, layers))
    if node.get('layer') is not None:
        s.layer = layers[node['layer']]
    if node.get('level') is not None:
        s.level = node['level']
    return s


def _make_doctest(modname, dt, layers):
    import doctest

    class TracedDocTestCase(doctest.DocTestCase):
        def run(self, result=None):
            tid = self.id()
            hook('test.run', tid)
            try:
                return doctest.DocTestCase.run(self, result)
            finally:
                hook('test.ran', tid)

        def debug(self):
            tid = self.id()
            hook('test.debug', tid)
            try:
                return doctest.DocTestCase.debug(self)
            finally:
                hook('test.debugged', tid)

    tid = '%s.%s' % (modname, dt['name'])
    lines = ['>>> from vsim.simrt import hook']
    for i in range(dt['examples']):
        lines.append('>>> hook(%r, %r)' % ('test.ex', '%s#%d' % (tid, i)))
    test = doctest.DocTestParser().get_doctest(
        '\n'.join(lines) + '\n', {}, tid, modname.replace('.', '/') + '.py', 0)
    case = TracedDocTestCase(test)
    suite = unittest.TestSuite([case])
    if dt.get('layer') is not None:
        suite.layer = layers[dt['layer']]
    return suite


def populate_tests(g):
    modname = g['__name__']
    short = modname.rsplit('.', 1)[-1]
    m = None
    for mm in rt.world['modules']:
        if mm['name'] == short:
            m = mm
    if m is None:
        raise ImportError('no such world module ' + modname)
    hook('module.import', modname)
    dts = m.get('doctests') or []
    if m['classes'] and any(c.get('layer') is not None for c in m['classes']) or m.get('suite') \
            or any(dt.get('layer') is not None for dt in dts):
        import importlib
        lm = importlib.import_module(LAYERMOD)
        layers = {L['name']: getattr(lm, L['name']) for L in rt.world['layers']}
    else:
        layers = {}
    classes = {}
    for c in m['classes']:
        cls = _make_class(modname, c, layers)
        classes[c['name']] = cls
        g[c['name']] = cls
    tree = m.get('suite')
    if tree is not None or dts:
        def test_suite():
            hook('module.test_suite', modname)
            if tree is not None:
                top = _build_suite(tree, classes, layers)
            else:
                top = unittest.TestSuite(
                    [unittest.defaultTestLoader.loadTestsFromTestCase(classes[n])
                     for n in sorted(classes)])
            if dts:
                top = unittest.TestSuite([top] + [_make_doctest(modname, dt, layers)
                                                  for dt in dts])
            return top
        g['test_suite'] = test_suite


# source text of the stubs
LAYERS_STUB = "from vsim import simrt as _rt\n_rt.populate_layers(globals())\n"
ZZ_STUB = "from vsim import simrt as _rt\n_rt.populate_zz(globals())\n"
TESTS_STUB = "from vsim import simrt as _rt\n_rt.populate_tests(globals())\n"
