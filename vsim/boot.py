"""Bootstrap: import zope.testrunner from the *working tree* of the repository under test.

/repo/src/zope/__init__.py is a pkg_resources namespace package while the installed zope.*
distributions are PEP 420 packages, so after putting <repo>/src first on sys.path the other zope.*
packages are no longer found.  We extend zope.__path__ by hand.  Nothing is built or installed.
"""
import os
import sys
import warnings

REPO = os.environ.get('VERIF_REPO', '/repo')
VERIF = os.path.dirname(os.path.dirname(os.path.abspath(__file__)))
_done = False


def bootstrap():
    global _done
    if _done:
        return
    sys.dont_write_bytecode = True
    src = os.path.join(REPO, 'src')
    if src in sys.path:
        sys.path.remove(src)
    sys.path.insert(0, src)
    if VERIF not in sys.path:
        sys.path.insert(1, VERIF)
    # an interpreter of another Python version (C11's cross-version runs) borrows the pure-Python
    # dependencies of the repository from the one environment that has them
    extra = os.environ.get('VERIF_EXTRA_SITE')
    if extra and extra not in sys.path:
        sys.path.append(extra)
    with warnings.catch_warnings():
        warnings.simplefilter('ignore')
        import zope
        # the venv's .pth may already have bound the namespace to another checkout
        mine = os.path.join(src, 'zope')
        others = [d for d in zope.__path__
                  if os.path.abspath(d) != os.path.abspath(mine)
                  and not os.path.isdir(os.path.join(d, 'testrunner'))]
        zope.__path__[:] = [mine] + others
        for k in [k for k in sys.modules if k == 'zope.testrunner'
                  or k.startswith('zope.testrunner.')]:
            del sys.modules[k]
        for p in list(sys.path):
            if p.endswith('site-packages'):
                zp = os.path.join(p, 'zope')
                if os.path.isdir(zp) and zp not in zope.__path__:
                    zope.__path__.append(zp)
        import zope.testrunner
        import zope.testrunner.runner  # noqa
    f = os.path.abspath(zope.testrunner.__file__)
    if not f.startswith(os.path.abspath(src) + os.sep):
        raise RuntimeError('zope.testrunner imported from %s, not from %s' % (f, src))
    _done = True


def runner_file():
    import zope.testrunner
    return zope.testrunner.__file__
