"""Simulated synchronisation primitives for code that runs under the baton scheduler.

The runner's threads are real threads of which exactly one holds the baton; a *real* lock, event
or queue that one of them blocks on while another (parked) thread holds it would deadlock the
process for real.  These stand-ins block through Sched.block()/Clock.sleep(), so that every wait
is a scheduling point the seeded scheduler decides and every timeout reads virtual time.  The
pinned runner only uses queue.Queue (never blocking); the rest exists so that a refactoring of the
parallel machinery (a lock around the result lists, an Event instead of polling, a blocking
queue.get) is still simulated instead of hanging the harness.
"""
import queue as real_queue


def _wait(sched, cond, why, timeout=None):
    """Park the current task until cond() or until `timeout` virtual seconds passed.
    Returns cond() at wake-up."""
    if cond():
        sched.switch_point()
        return True
    if timeout is None:
        sched.block(cond, why)
        return True
    if timeout <= 0:
        sched.switch_point()
        return cond()
    deadline = sched.clock.now + timeout
    me = sched.current
    me.state = 'blocked'
    me.cond = lambda: cond() or sched.clock.now >= deadline
    me.why = why
    me.wake_at = deadline          # the scheduler's timer list looks at wake_at of sleepers
    me.timed = True
    try:
        sched.switch()
    finally:
        me.timed = False
        me.why = None
    return cond()


class SimLock:
    def __init__(self, sched):
        self._s = sched
        self._owner = None

    def acquire(self, blocking=True, timeout=-1):
        s = self._s
        if not s.active:
            self._owner = object()
            return True
        if not blocking:
            if self._owner is None:
                self._owner = s.current
                return True
            return False
        ok = _wait(s, lambda: self._owner is None, 'lock',
                   None if timeout is None or timeout < 0 else timeout)
        if ok:
            self._owner = s.current
        return ok

    def release(self):
        if self._owner is None:
            raise RuntimeError('release unlocked lock')
        self._owner = None

    def locked(self):
        return self._owner is not None

    __enter__ = acquire

    def __exit__(self, *a):
        self.release()


class SimRLock(SimLock):
    def __init__(self, sched):
        SimLock.__init__(self, sched)
        self._count = 0

    def acquire(self, blocking=True, timeout=-1):
        s = self._s
        if s.active and self._owner is s.current:
            self._count += 1
            return True
        ok = SimLock.acquire(self, blocking, timeout)
        if ok:
            self._count = 1
        return ok

    def release(self):
        if self._owner is None:
            raise RuntimeError('cannot release un-acquired lock')
        self._count -= 1
        if self._count <= 0:
            self._owner = None
            self._count = 0

    __enter__ = acquire


class SimEvent:
    def __init__(self, sched):
        self._s = sched
        self._flag = False

    def is_set(self):
        return self._flag

    isSet = is_set

    def set(self):
        self._flag = True

    def clear(self):
        self._flag = False

    def wait(self, timeout=None):
        if not self._s.active:
            return self._flag
        return _wait(self._s, lambda: self._flag, 'event', timeout)


class SimCondition:
    def __init__(self, sched, lock=None):
        self._s = sched
        self._lock = lock if lock is not None else SimRLock(sched)
        self._waiters = []
        self.acquire = self._lock.acquire
        self.release = self._lock.release

    def __enter__(self):
        return self._lock.__enter__()

    def __exit__(self, *a):
        return self._lock.__exit__(*a)

    def wait(self, timeout=None):
        token = [False]
        self._waiters.append(token)
        # release fully, wait, re-acquire
        saved = getattr(self._lock, '_count', 1)
        self._lock._owner = None
        if hasattr(self._lock, '_count'):
            self._lock._count = 0
        got = _wait(self._s, lambda: token[0], 'condition', timeout)
        if not got and token in self._waiters:
            self._waiters.remove(token)
        _wait(self._s, lambda: self._lock._owner is None, 'condition-reacquire')
        self._lock._owner = self._s.current
        if hasattr(self._lock, '_count'):
            self._lock._count = saved
        return got

    def wait_for(self, predicate, timeout=None):
        end = None if timeout is None else self._s.clock.now + timeout
        result = predicate()
        while not result:
            left = None
            if end is not None:
                left = end - self._s.clock.now
                if left <= 0:
                    break
            self.wait(left)
            result = predicate()
        return result

    def notify(self, n=1):
        for token in self._waiters[:n]:
            token[0] = True
        del self._waiters[:n]

    def notify_all(self):
        self.notify(len(self._waiters))

    notifyAll = notify_all


class SimSemaphore:
    def __init__(self, sched, value=1):
        self._s = sched
        self._value = value

    def acquire(self, blocking=True, timeout=None):
        if not blocking:
            if self._value > 0:
                self._value -= 1
                return True
            return False
        ok = _wait(self._s, lambda: self._value > 0, 'semaphore', timeout) \
            if self._s.active else True
        if ok:
            self._value -= 1
        return ok

    def release(self, n=1):
        self._value += n

    __enter__ = acquire

    def __exit__(self, *a):
        self.release()


class SimQueue:
    """queue.Queue whose blocking get/put/join are scheduling points."""

    def __init__(self, sched, maxsize=0):
        self._s = sched
        self.maxsize = maxsize
        self._items = []
        self._unfinished = 0

    def _init_order(self):
        pass

    def qsize(self):
        return len(self._items)

    def empty(self):
        return not self._items

    def full(self):
        return 0 < self.maxsize <= len(self._items)

    def _pop(self):
        return self._items.pop(0)

    def put(self, item, block=True, timeout=None):
        if self.full():
            if not block or not self._s.active:
                raise real_queue.Full
            if not _wait(self._s, lambda: not self.full(), 'queue.put', timeout):
                raise real_queue.Full
        self._items.append(item)
        self._unfinished += 1

    def put_nowait(self, item):
        return self.put(item, False)

    def get(self, block=True, timeout=None):
        if not self._items:
            if not block or not self._s.active:
                raise real_queue.Empty
            if not _wait(self._s, lambda: bool(self._items), 'queue.get', timeout):
                raise real_queue.Empty
        return self._pop()

    def get_nowait(self):
        return self.get(False)

    def task_done(self):
        if self._unfinished <= 0:
            raise ValueError('task_done() called too many times')
        self._unfinished -= 1

    def join(self):
        if self._s.active:
            _wait(self._s, lambda: self._unfinished == 0, 'queue.join')


class SimLifoQueue(SimQueue):
    def _pop(self):
        return self._items.pop()


class SimSimpleQueue(SimQueue):
    def __init__(self, sched):
        SimQueue.__init__(self, sched, 0)
