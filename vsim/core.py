"""The simulator core: virtual clock, baton scheduler over real threads, simulated pipes and
child processes (real runner code executed in forked processes and replayed from their output
tape), tagged output capture, and execute(): one complete run of the real runner under all seams.
"""
import errno
import hashlib
import io
import json
import os
import random
import re
import signal
import struct
import sys
import subprocess as real_subprocess
import threading as real_threading
import traceback
import types
import warnings

from . import boot
from . import simrt

boot.bootstrap()

import zope.testrunner  # noqa: E402
import zope.testrunner.find as ZF  # noqa: E402
import zope.testrunner.runner as R  # noqa: E402
import zope.testrunner.shuffle as ZSH  # noqa: E402
import zope.testrunner.statistics as ZST  # noqa: E402

# (the runner's coverage module replaces sys.settrace by a wrapper that ignores None)
_SYS_SETTRACE = sys.settrace
CHILD_SCRIPT = os.path.join(boot.VERIF, 'vsim', 'child_boot.py')
STEP_CAP = 400000
ANSI_RE = re.compile(r'\x1b\[[0-9;]*m')


class HarnessError(Exception):
    """The simulator itself failed; never a verdict about the code under test."""


HARNESS_ERRORS = []


class Hang(Exception):
    """The simulated system can make no further progress (structural deadlock)."""


class StepCap(Exception):
    pass


# ---------------------------------------------------------------------------------------
# clock


class Clock:
    """time module stand-in.  Under a scheduler sleep() parks the calling task."""

    def __init__(self, base=1000000.0, tick=0.000977, sched=None):
        self.now = base
        self.tick = tick
        self.sched = sched

    def time(self):
        self.now += self.tick
        return self.now

    def sleep(self, dt):
        for hook in list(getattr(self, 'sleep_hooks', ())):
            hook(dt)          # (things of the world that happen "as soon as the runner sleeps")
        s = self.sched
        if s is None or not s.active:
            self.now += dt
            return
        me = s.current
        me.state = 'sleeping'
        me.wake_at = self.now + dt
        s.switch()

    def monotonic(self):
        return self.time()

    perf_counter = monotonic

    def time_ns(self):
        return int(self.time() * 1e9)

    # anything else the code under test might want from `time`
    def __getattr__(self, name):
        import time as _t
        return getattr(_t, name)


# ---------------------------------------------------------------------------------------
# scheduler


class Task:
    def __init__(self, name):
        self.name = name
        self.sem = real_threading.Semaphore(0)
        self.state = 'runnable'   # runnable | blocked | sleeping | done
        self.wake_at = None
        self.cond = None
        self.why = None
        self.timed = False       # blocked with a (virtual-time) deadline in wake_at


class Sched:
    def __init__(self, clock, mode):
        self.clock = clock
        clock.sched = self
        self.mode = mode or {}
        self.rng = random.Random(self.mode.get('prng', 0))
        self.replay = self.mode.get('choices')
        self.replay_pos = 0
        self.choices = []        # recorded choice indexes
        self.log = []            # event log (deterministic content only)
        self.tasks = []
        self.actors = []
        self.steps = 0
        self.progress = 0
        self.idle_polls = 0
        self.last_progress_seen = -1
        self.active = True
        self.max_alive = 0
        self.spawned = 0
        self.exit_order = []
        self.thread_excs = []
        self.hang = None
        self.capped = False
        self.step_cost = self.mode.get('step_cost', 0.0)
        main = Task('main')
        self.main = main
        self.tasks.append(main)
        self.current = main
        self.probes = {}

    def probe(self, name, n=1):
        self.probes[name] = self.probes.get(name, 0) + n

    def alive_actors(self):
        return [a for a in self.actors if a.alive]

    def _candidates(self):
        out = []
        now = self.clock.now
        for t in self.tasks:
            if t.state == 'blocked' and t.cond():
                t.state = 'runnable'
            elif t.state == 'sleeping' and t.wake_at <= now:
                t.state = 'runnable'
            if t.state == 'runnable':
                out.append(t)
        for a in self.actors:
            if a.can_step(now):
                out.append(a)
        return out

    def _choose(self, n):
        if n == 1:
            return 0
        if self.replay is not None:
            if self.replay_pos < len(self.replay):
                i = self.replay[self.replay_pos] % n
            else:
                i = 0
            self.replay_pos += 1
        else:
            i = self.rng.randrange(n)
        self.choices.append(i)
        return i

    def switch(self):
        """Called by the task holding the baton at a scheduling point (its state already set)."""
        me = self.current
        while True:
            self.steps += 1
            if self.steps > STEP_CAP:
                self.active = False
                self.capped = True
                if me is not self.main:
                    self.main.sem.release()     # (the parked main thread reports it)
                raise StepCap('step cap')
            cands = self._candidates()
            if not cands:
                timers = [t.wake_at for t in self.tasks
                          if t.state == 'sleeping' or (t.state == 'blocked' and t.timed)]
                timers += [a.stall_until for a in self.actors
                           if a.alive and a.stall_until is not None]
                if not timers:
                    self._raise_hang('no runnable task and no timer')
                # is anybody but the poller going to do something?
                others = [t for t in self.tasks
                          if (t.state == 'sleeping' or (t.state == 'blocked' and t.timed))
                          and t is not self.main]
                stalls = [a for a in self.actors if a.alive and a.stall_until is not None]
                if not others and not stalls and not getattr(self.main, 'idle_exempt', False):
                    if self.progress == self.last_progress_seen:
                        self.idle_polls += 1
                    else:
                        self.idle_polls = 0
                        self.last_progress_seen = self.progress
                    if self.idle_polls > 5:
                        self._raise_hang('only the poller is runnable and nothing can change')
                self.clock.now = max(self.clock.now, min(timers))
                continue
            nxt = cands[self._choose(len(cands))]
            if isinstance(nxt, Actor):
                self.progress += 1
                nxt.step()
                # (children are not infinitely fast: their work takes virtual time, so the
                # parent's poll loop wakes up in the middle of it)
                self.clock.now += self.step_cost
                continue
            if nxt is not self.main:
                self.progress += 1
            if nxt is me:
                return
            self.current = nxt
            nxt.sem.release()
            if me.state != 'done':
                me.sem.acquire()
                if self.capped and me is self.main:
                    raise StepCap('step cap')
                if self.hang is not None and me is self.main:
                    raise Hang(self.hang)
            return

    def _raise_hang(self, why):
        graph = [(t.name, t.state, t.why) for t in self.tasks if t.state != 'done']
        graph += [('actor:' + a.name, 'alive' if a.alive else 'dead', a.pos, len(a.tape))
                  for a in self.actors]
        self.hang = '%s: %r' % (why, graph)
        self.log.append(('hang', why))
        self.active = False
        me = self.current
        if me is self.main:
            raise Hang(self.hang)
        # hand the baton back to main, which raises Hang; this thread parks forever
        self.current = self.main
        self.main.state = 'runnable'
        self.main.sem.release()
        me.sem.acquire()

    def others_can_run(self):
        """Is any task other than main, or any child actor, able to take a step right now?"""
        now = self.clock.now
        for t in self.tasks:
            if t is self.main or t.state in ('done', 'new'):
                continue
            if t.state == 'runnable' or (t.state == 'blocked' and t.cond()) or \
                    (t.state == 'sleeping' and t.wake_at <= now):
                return True
        return any(a.can_step(now) for a in self.actors)

    def switch_point(self):
        """A scheduling point at which the caller stays runnable."""
        if self.active:
            self.switch()

    def block(self, cond, why):
        me = self.current
        if not cond():
            me.state = 'blocked'
            me.cond = cond
            me.why = why
        self.switch()
        me.why = None


class SimPipe:
    def __init__(self, cap):
        self.buf = bytearray()
        self.closed_w = False
        self.cap = cap
        self.total = 0

    def space(self):
        return self.cap - len(self.buf)


class PipeReader:
    def __init__(self, sched, pipe, name, faults):
        self.s, self.pipe, self.name = sched, pipe, name
        self.faults = faults     # sorted list of (n, errno name): the n-th readline raises it
        self.nread = 0
        self.local = bytearray()

    def readline(self):
        p = self.pipe
        self.nread += 1
        if self.faults and self.faults[0][0] == self.nread:
            _, kind = self.faults.pop(0)
            self.s.probe('eintr_injected' if kind == 'EINTR' else 'read_error_injected')
            self.s.log.append(('eintr' if kind == 'EINTR' else 'read-error', self.name))
            self.s.switch()
            if kind == 'EINTR':
                raise OSError(errno.EINTR, 'Interrupted system call (injected)')
            # a transient error of another kind (EIO from a flaky device, EAGAIN on a
            # descriptor somebody made non-blocking): the next attempt works
            raise OSError(getattr(errno, kind), 'transient read error (injected)')
        # like io.BufferedReader: drain the pipe into a reader-local buffer until a newline
        loc = self.local
        while True:
            i = loc.find(b'\n')
            if i >= 0:
                data = bytes(loc[:i + 1])
                del loc[:i + 1]
                return data
            self.s.block(lambda: len(p.buf) > 0 or p.closed_w, 'readline ' + self.name)
            if p.buf:
                loc += p.buf
                del p.buf[:]
            elif p.closed_w:
                data = bytes(loc)
                del loc[:]
                return data

    read_fault = None

    def read(self, n=-1):
        p = self.pipe
        if self.read_fault is not None:
            # reading the child's stderr fails: the descriptor was closed under the reader's
            # hands (EBADF/EIO).  The pipe has no reader any more: what the child still writes
            # there is lost (EPIPE), it does not block
            info, env = self.read_fault
            self.read_fault = None
            p.closed_w = True
            info['reader_failed'] = True         # its report cannot be read by the parent
            self.s.probe('stderr_read_error_injected')
            env.fired.append('stderr_read_error')
            self.s.log.append(('stderr-read-error', self.name))
            self.s.switch()
            raise OSError(errno.EIO, 'Input/output error (injected stderr read error)')
        if n is not None and n >= 0:
            # BufferedReader.read(n): up to n bytes, blocking until n bytes or EOF
            loc = self.local
            while len(loc) < n:
                self.s.block(lambda: len(p.buf) > 0 or p.closed_w, 'read ' + self.name)
                if p.buf:
                    loc += p.buf
                    del p.buf[:]
                elif p.closed_w:
                    break
            data = bytes(loc[:n])
            del loc[:n]
            return data
        out = bytearray()
        while True:
            self.s.block(lambda: len(p.buf) > 0 or p.closed_w, 'read ' + self.name)
            if self.local:
                out += self.local
                del self.local[:]
            out += p.buf
            del p.buf[:]
            if p.closed_w and not p.buf:
                return bytes(out)

    def close(self):
        pass

    closed = False

    def readlines(self):
        out = []
        while True:
            line = self.readline()
            if not line:
                return out
            out.append(line)

    def __iter__(self):
        return self

    def __next__(self):
        line = self.readline()
        if not line:
            raise StopIteration
        return line

    def fileno(self):
        raise HarnessError('the code under test asked for the file descriptor of a simulated '
                           'pipe (select/poll on child pipes is not simulated)')


class Actor:
    """A simulated child process: a cursor over the tape its real execution produced."""

    def __init__(self, sched, name, simpid, tape, cap, on_event):
        self.s = sched
        self.name = name
        self.simpid = simpid
        self.tape = tape
        self.pos = 0
        self.out = SimPipe(cap)
        self.err = SimPipe(cap)
        self.alive = True
        self.gate = None
        self.stall_until = None
        self.on_event = on_event
        self.pending = None       # remainder of a partially written record
        self.exit_status = None
        self.natural_status = 0
        self.killed_by_parent = False
        self.reaped = False
        self.err_delivered = 0
        self.backpressure = 0
        self.detached = False     # closed both pipes but lives on (until the parent kills it)

    def can_step(self, now):
        if not self.alive or self.detached:
            return False
        if self.stall_until is not None:
            if now < self.stall_until:
                return False
            self.stall_until = None
        if self.pos >= len(self.tape) and self.pending is None:
            return self.gate is None or self.gate(self)
        rec = self.pending or self.tape[self.pos]
        if rec[0] in ('O', 'E'):
            pipe = self.out if rec[0] == 'O' else self.err
            if pipe.space() <= 0 and not pipe.closed_w:
                # (a pipe that lost its reader does not block its writer: the data is lost)
                self.backpressure += 1
                return False
        return True

    def step(self):
        if self.pos >= len(self.tape) and self.pending is None:
            self.exit('end')
            return
        if self.pending is not None:
            rec = self.pending
            self.pending = None
        else:
            rec = self.tape[self.pos]
            self.pos += 1
        tag = rec[0]
        if tag in ('O', 'E'):
            pipe = self.out if tag == 'O' else self.err
            data = rec[1]
            if pipe.closed_w:
                return
            n = min(len(data), pipe.space())
            pipe.buf += data[:n]
            pipe.total += n
            if n < len(data):
                self.pending = (tag, data[n:])
                self.s.probe('backpressure_split')
        elif tag == 'C':
            self.out.closed_w = True
        elif tag == 'T':
            self.on_event(rec[1])
        elif tag == 'S':
            self.stall_until = self.s.clock.now + rec[1]
            self.s.probe('stall')
        elif tag == 'K':
            self.exit('fault-kill')
        elif tag == 'D':
            # the child closes its stdout and stderr (daemonises, re-points fds 1/2) but does
            # not exit: the parent sees EOF on both pipes of a process that is still alive
            self.out.closed_w = True
            self.err.closed_w = True
            self.detached = True
            self.s.probe('child_detached')
            self.s.log.append(('detach', self.name))
        # 'F', 'R', 'X' records carry no pipe effect

    def exit(self, why, status=None):
        if not self.alive:
            return
        self.alive = False
        # what wait() reports: the child's own end, or the signal that ended it early
        if status is None:
            status = -9 if why == 'fault-kill' else self.natural_status
        self.exit_status = status
        self.out.closed_w = True
        self.err.closed_w = True
        self.s.exit_order.append(self.name)
        self.s.log.append(('exit', self.name, why))


# ---------------------------------------------------------------------------------------
# child side: tape streams and the forked real runner


class TapeStream(io.TextIOBase):
    """Text stream of a child: frames every write/flush/close into the tape pipe."""

    encoding = 'utf-8'
    errors = 'backslashreplace'

    def __init__(self, fd, tag):
        self.fd, self.tag = fd, tag
        self._closed = False
        self.buffer = _TapeBinary(self)

    def write(self, s):
        if self._closed:
            raise ValueError('I/O operation on closed file.')
        if not isinstance(s, str):
            raise TypeError('write() argument must be str, not %s' % type(s).__name__)
        b = s.encode('utf-8', 'backslashreplace')
        if b:
            _tape_write(self.fd, self.tag, b)
        return len(s)

    def flush(self):
        if self._closed:
            raise ValueError('I/O operation on closed file.')
        _tape_write(self.fd, b'F', self.tag)

    def close(self):
        if not self._closed:
            self._closed = True
            if self.tag == b'O':
                _tape_write(self.fd, b'C', b'')

    @property
    def closed(self):
        return self._closed

    def isatty(self):
        return False

    def writable(self):
        return True


class _TapeBinary:
    def __init__(self, text):
        self.text = text

    def write(self, b):
        if self.text._closed:
            raise ValueError('I/O operation on closed file.')
        b = bytes(b)
        if b:
            _tape_write(self.text.fd, self.text.tag, b)
        return len(b)

    def flush(self):
        self.text.flush()


def _tape_write(fd, tag, payload):
    data = struct.pack('<cI', tag, len(payload)) + payload
    while data:
        n = os.write(fd, data)
        data = data[n:]


def parse_tape(data):
    tape = []
    i = 0
    n = len(data)
    while i + 5 <= n:
        tag, ln = struct.unpack_from('<cI', data, i)
        i += 5
        payload = bytes(data[i:i + ln])
        i += ln
        tag = tag.decode()
        if tag in ('T', 'R'):
            payload = json.loads(payload.decode())
        elif tag == 'X':
            payload = int(payload.decode())
        elif tag == 'F':
            payload = payload.decode()
        elif tag == 'H':
            raise HarnessError('in forked child:\n' + payload.decode())
        tape.append((tag, payload))
    return tape


_RealRunner = R.Runner


class RecordingRunner(_RealRunner):
    instances = []

    def __init__(self, *a, **kw):
        _RealRunner.__init__(self, *a, **kw)
        RecordingRunner.instances.append(self)


def purge_world_modules():
    for k in [k for k in sys.modules
              if k == simrt.PKG or k.startswith(simrt.PKG + '.') or k == simrt.ZZMOD]:
        del sys.modules[k]
    import importlib
    importlib.invalidate_caches()


def runner_truth(runner):
    def names(lst):
        out = []
        for item in lst:
            # (test, exc_info) pairs; unexpected successes are appended as bare tests
            t = item[0] if isinstance(item, tuple) else item
            # protocol convention: one line per name, line breaks become blanks
            out.append(re.sub(r'[\r\n]+', ' ', str(t).strip()))
        return out
    return {'ran': runner.ran, 'failures': names(runner.failures),
            'errors': names(runner.errors), 'skipped': len(runner.skipped),
            'import_errors': [e.module for e in runner.import_errors],
            'failed': runner.failed}


def _bracket_report(w):
    """In a forked child: mark on the tape where the report to the parent begins and ends."""
    import zope.testrunner.process as ZP
    cls = getattr(ZP, 'SubProcess', None)
    orig = getattr(cls, 'report', None)
    if orig is None:
        return

    def report(self, *a, **kw):
        _tape_write(w, b'M', b'')
        try:
            return orig(self, *a, **kw)
        finally:
            _tape_write(w, b'N', b'')
    cls.report = report


def fresh_runner_modules():
    """In a forked child: forget every zope.testrunner module and import the package again, so
    that no module-level state of the parent (caches, flags, objects of the parent's world)
    survives into the child - as in a really exec()ed interpreter.  Returns (package, recording
    runner class)."""
    import importlib
    for k in [k for k in sys.modules
              if k == 'zope.testrunner' or k.startswith('zope.testrunner.')]:
        del sys.modules[k]
    importlib.invalidate_caches()
    # (compiled code of the runner's modules is kept in a per-lane cache directory outside
    # every source tree; nothing else ever writes bytecode)
    pyc = os.environ.get('VSIM_PYC_DIR')
    old = sys.dont_write_bytecode, sys.pycache_prefix
    if pyc:
        sys.dont_write_bytecode, sys.pycache_prefix = False, pyc
    try:
        pkg = importlib.import_module('zope.testrunner')
        rmod = importlib.import_module('zope.testrunner.runner')
    finally:
        sys.dont_write_bytecode, sys.pycache_prefix = old
    base = rmod.Runner

    class FreshRecordingRunner(base):
        instances = []

        def __init__(self, *a, **kw):
            base.__init__(self, *a, **kw)
            FreshRecordingRunner.instances.append(self)
    rmod.Runner = FreshRecordingRunner
    _PRISTINE.clear()
    return pkg, FreshRecordingRunner


_DIRTY = False     # the runner's modules have been used by an execution of this process
REUSE_MODULES = False   # this sim-run models several runs inside ONE interpreter (API use)


def prepare():
    """Give the next execution freshly imported runner modules if an earlier execution of this
    process used them: every execution stands for a new interpreter, no module-level state may
    leak from one to the next.  Engines that patch runner modules themselves (find.os,
    threadsupport.*) call this before they do."""
    global _DIRTY, R, ZF, ZSH, ZST, RecordingRunner
    if not _DIRTY or REUSE_MODULES:
        # (REUSE_MODULES: the executions of this spec are successive run_internal() calls of one
        # process - whatever the runner keeps at module or class level is carried along, and
        # must not change what a run does)
        return
    _DIRTY = False
    pkg, rec = fresh_runner_modules()
    import importlib
    R = importlib.import_module('zope.testrunner.runner')
    ZF = importlib.import_module('zope.testrunner.find')
    ZSH = importlib.import_module('zope.testrunner.shuffle')
    ZST = importlib.import_module('zope.testrunner.statistics')
    RecordingRunner = rec
    _scan_pristine()


def run_child_forked(child_args, world, plan, simpid, clock_base, fresh=False, cwd=None):
    """Run the real runner for one layer in a forked process; return (tape, wait status)."""
    r, w = os.pipe()
    with warnings.catch_warnings():
        warnings.simplefilter('ignore')
        pid = os.fork()
    if pid == 0:
        code = 70
        try:
            os.close(r)
            signal.alarm(60)
            _SYS_SETTRACE(None)         # (the forking thread may run under the pre-emption tracer)
            real_threading.settrace(None)
            # a real child is a fresh interpreter
            if cwd is not None:
                os.chdir(cwd)       # Popen(cwd=...); cwd=None: the parent's directory right now
            purge_world_modules()
            pkg, Rec = sys.modules['zope.testrunner'], RecordingRunner
            if fresh:
                pkg, Rec = fresh_runner_modules()
            clk = Clock(base=clock_base)
            install_seams(types.SimpleNamespace(clock=clk), real=True)
            sys.modules['zope.testrunner.find'].os = os
            rt = simrt.install(world, plan, simpid,
                               sink=lambda ev: _tape_write(w, b'T', json.dumps(ev).encode()))
            out = TapeStream(w, b'O')
            err = TapeStream(w, b'E')
            sys.stdout = out
            sys.stderr = sys.__stderr__ = err
            rt.orig_stdout = out
            rt.orig_stderr = out     # SubProcess.global_setup aliases stderr to stdout
            rt.real_stderr = err
            Rec.instances[:] = []
            _bracket_report(w)
            try:
                failed = pkg.run_internal(None, list(child_args))
                code = int(bool(failed))
                if Rec.instances:
                    _tape_write(w, b'R', json.dumps(
                        runner_truth(Rec.instances[-1])).encode())
            except SystemExit as e:
                # (run_internal never exits by itself: something in the world did)
                _tape_write(w, b'U', b'SystemExit')
                code = e.code if isinstance(e.code, int) else 1
            except BaseException as e:
                _tape_write(w, b'U', type(e).__name__.encode())
                # an uncaught exception in a real child prints a traceback to its sys.stderr
                # (which the runner aliased to its stdout) and exits 1
                try:
                    sys.stderr.write(traceback.format_exc())
                except Exception:
                    pass
                if Rec.instances:
                    try:
                        _tape_write(w, b'R', json.dumps(
                            runner_truth(Rec.instances[-1])).encode())
                    except Exception:
                        pass
                code = 1
            _tape_write(w, b'X', str(code).encode())
        except BaseException:  # harness failure in the child: make it visible
            try:
                _tape_write(w, b'H', traceback.format_exc().encode())
            except BaseException:
                pass
        finally:
            os._exit(code & 0xff)
    os.close(w)
    chunks = []
    while True:
        chunk = os.read(r, 1 << 16)
        if not chunk:
            break
        chunks.append(chunk)
    os.close(r)
    _, status = os.waitpid(pid, 0)
    return parse_tape(b''.join(chunks)), status


# ---------------------------------------------------------------------------------------
# parent side: simulated subprocess / threading modules


class _SimStdin:
    """The child's stdin as seen by the parent: layer children never read it."""

    closed = False

    def write(self, data):
        return len(data)

    def flush(self):
        pass

    def close(self):
        self.closed = True


class SimPopen:
    """subprocess.Popen stand-in.  `_env` is bound in a per-execution subclass."""

    _env = None

    def __init__(self, args, bufsize=-1, executable=None, stdin=None, stdout=None, stderr=None,
                 **kw):
        env = self._env
        s = env.sched
        self.env = env
        self.args = args
        if isinstance(args, str):
            import shlex
            args = shlex.split(args)
        args = list(args)
        try:
            i = args.index('--resume-layer')
        except ValueError:
            raise OSError(errno.ENOENT, 'not a layer child command line: %r' % (args,))
        layer = args[i + 1]
        if list(args[:i]) != [sys.executable] + list(env.script_parts):
            raise OSError(errno.ENOENT, 'wrong child command: %r' % (args[:i],))
        if stdout != -1 or stderr != -1:
            # the result channel needs both of the child's streams
            raise OSError(errno.EBADF, 'stdout/stderr of a layer child must be pipes')
        s.spawned += 1
        env.nspawn_attempts += 1
        for e in env.channel_faults(layer, 'spawn_fail'):
            if e.get('occ') in (None, env.spawn_count.get(layer, 0)):
                env.spawn_count[layer] = env.spawn_count.get(layer, 0) + 1
                env.fired.append('spawn_fail')
                s.log.append(('spawn-fail', layer))
                s.switch()
                kind = e.get('exc', 'OSError')
                if kind == 'ValueError':
                    raise ValueError('embedded null byte (injected spawn failure)')
                if kind == 'UnicodeEncodeError':
                    # an argument that the file-system encoding cannot represent
                    raise UnicodeEncodeError('ascii', '\xfc', 0, 1, 'ordinal not in range(128) '
                                             '(injected spawn failure)')
                if kind == 'SubprocessError':
                    raise real_subprocess.SubprocessError('injected spawn failure')
                raise OSError(getattr(errno, e.get('errno', 'ENOMEM')), 'injected spawn failure')
        env.spawn_count[layer] = env.spawn_count.get(layer, 0) + 1
        simpid = len(s.actors) + 1
        child_args = [env.script_parts[-1]] + list(args[i:])
        skew = env.knobs.get('child_skew') or []
        base = env.clock.now + (skew[(simpid - 1) % len(skew)] if skew else 0.0)
        tape, status = run_child_forked(child_args, env.world, env.plan, simpid, base,
                                        fresh=env.fresh_child, cwd=kw.get('cwd'))
        info = env.prepare_tape(layer, simpid, tape, status, child_args)
        cap = env.knobs.get('pipe_capacity', 65536)
        self.actor = Actor(s, layer, simpid, info['tape'], cap, env.on_child_event)
        self.actor.info = info
        self.actor.natural_status = info['wait_status']
        gate = env.make_gate(self.actor)
        self.actor.gate = gate
        s.actors.append(self.actor)
        env.children.append(info)
        if not hasattr(env, 'last_child_by_task'):
            env.last_child_by_task = {}
        env.last_child_by_task[id(s.current)] = info
        alive = len(s.alive_actors())
        s.max_alive = max(s.max_alive, alive)
        if alive > env.processes_limit():
            env.invariant_violations.append(
                ('alive>N', alive, env.processes_limit(), layer))
        s.log.append(('spawn', layer, simpid))
        eintr = [(e['nth'], e.get('errno', 'EINTR')) for e in env.channel_faults(layer, 'eintr')]
        self.stdout = PipeReader(s, self.actor.out, layer + ':out', sorted(eintr))
        self.stderr = PipeReader(s, self.actor.err, layer + ':err', [])
        if env.knobs.get('stderr_read_error') == simpid:
            self.stderr.read_fault = (info, env)
        self.stdin = _SimStdin() if stdin == -1 else None
        self.pid = 100000 + simpid
        self.returncode = None
        s.switch()

    def _signal(self, sig, why):
        self.actor.killed_by_parent = True
        self.env.sched.log.append(('kill', self.actor.name))
        if self.actor.alive:
            if self.actor.pos < len(self.actor.tape):
                self.env.sched.probe('killed_with_tape_left')
            self.actor.exit(why, status=-sig)

    def kill(self):
        self._signal(9, 'parent-kill')

    def terminate(self):
        self._signal(15, 'parent-kill')

    def send_signal(self, sig):
        self._signal(int(sig), 'parent-kill')

    def _reap(self):
        if not self.actor.reaped:
            self.actor.reaped = True
            self.env.sched.log.append(('reap', self.actor.name))
        self.returncode = self.actor.exit_status
        return self.returncode

    def communicate(self, input=None, timeout=None):
        from . import simsync
        a = self.actor
        s = self.env.sched
        out = bytearray(self.stdout.local)
        err = bytearray(self.stderr.local)
        del self.stdout.local[:], self.stderr.local[:]
        deadline = None if timeout is None else s.clock.now + timeout
        while True:
            out += a.out.buf
            err += a.err.buf
            del a.out.buf[:], a.err.buf[:]
            if not a.alive:
                break
            left = None if deadline is None else deadline - s.clock.now
            if left is not None and left <= 0:
                self.stdout.local += out
                self.stderr.local += err
                raise real_subprocess.TimeoutExpired(self.args, timeout)
            simsync._wait(s, lambda: a.out.buf or a.err.buf or not a.alive, 'communicate', left)
        self._reap()
        return bytes(out), bytes(err)

    def wait(self, timeout=None):
        from . import simsync
        a = self.actor
        if a.alive:
            if not simsync._wait(self.env.sched, lambda: not a.alive, 'wait', timeout):
                raise real_subprocess.TimeoutExpired(self.args, timeout)
        return self._reap()

    def poll(self):
        if self.actor.alive:
            return None
        return self._reap()

    def __enter__(self):
        return self

    def __exit__(self, *exc):
        self.wait()


def make_preempt_tracer(env):
    """Line-level pre-emption: a trace function for the parent's threads under which every line
    of zope/testrunner/runner.py executed while other tasks exist is a possible scheduling point
    (taken with probability env.line_preempt, drawn from a PRNG of its own).  The baton holder
    is the only thread that runs Python code, so the draws happen in one well defined order."""
    sched = env.sched
    rng = env.preempt_rng
    p = env.line_preempt
    budget = env.preempt_budget      # (shared by all threads of the execution)
    suffix = os.path.join('zope', 'testrunner', 'runner.py')

    def local(frame, event, arg):
        if event == 'line' and sched.active and len(sched.tasks) > 1 and \
                any(t.state != 'done' for t in sched.tasks if t is not sched.current):
            if budget[0] > 0 and rng.random() < p:
                budget[0] -= 1
                sched.probe('line_preemptions')
                if sched.current is sched.main and rng.random() < 0.25:
                    # the main thread loses the CPU for long: everybody else runs until
                    # nobody can any more
                    sched.probe('line_preemptions_long')
                    sched.block(lambda: not sched.others_can_run(), 'pre-empted')
                else:
                    sched.switch_point()
        return local

    noise = bool(env.knobs.get('global_random_noise'))
    shuffle_suffix = os.path.join('zope', 'testrunner', 'shuffle.py')

    def noisy(frame, event, arg):
        # stand-in for a foreign thread that draws from the module-level generator of `random`
        # between two lines of the runner's shuffling
        if event == 'line' and rng.random() < 0.5:
            sched.probe('global_random_draws')
            random.random()
        return noisy

    def tracer(frame, event, arg):
        fn = frame.f_code.co_filename
        if p and fn.endswith(suffix):
            return local
        if noise and fn.endswith(shuffle_suffix):
            return noisy
        return None
    return tracer


class SimThread:
    """threading.Thread stand-in: a real thread that only runs while it holds the baton.
    `_env` is bound in a per-execution subclass (install_seams), so the runner may also
    subclass it."""

    _env = None

    def __init__(self, group=None, target=None, name=None, args=(), kwargs=None,
                 daemon=None):
        if not isinstance(self, SimThread):
            # an instance of a class that subclassed the REAL threading.Thread when its module
            # was imported and now calls threading.Thread.__init__(self): initialise it as a
            # real thread object (never started) and let the simulator run its run()
            real_threading.Thread.__init__(self, group=group, target=target, name=name,
                                           args=args, kwargs=kwargs, daemon=daemon)
            sim = SimThread.__new__(type('Thread', (SimThread,), {'_env': CURRENT_ENV}))
            SimThread.__init__(sim, name=name, daemon=daemon)
            sim.run = self.run
            self.__dict__['_vsim'] = sim
            for m in ('start', 'join', 'is_alive', 'isAlive'):
                self.__dict__[m] = getattr(sim, m)
            return
        env = self._env
        env.nthreads += 1
        self.name = name or 'SimThread-%d' % env.nthreads
        self._target, self._args, self._kwargs = target, args, kwargs or {}
        self.daemon = bool(daemon)
        self.task = Task(self.name)
        self.task.state = 'new'
        self.ident = None
        self.native_id = None

    def run(self):
        if self._target is not None:
            self._target(*self._args, **self._kwargs)

    def _body(self):
        s = self._env.sched
        self.task.sem.acquire()
        if getattr(self._env, 'line_preempt', 0):
            _SYS_SETTRACE(make_preempt_tracer(self._env))
        try:
            self.run()
        except BaseException as e:  # noqa
            if isinstance(e, HarnessError):
                HARNESS_ERRORS.append(str(e))
            if isinstance(e, OSError) and 'injected stderr read error' in str(e):
                # the helper thread that reads a child's stderr dies of the injected read
                # error: that is the fault itself, not a reaction of the runner to judge
                s.log.append(('thread-exc-injected', self.name))
            else:
                s.thread_excs.append((self.name, type(e).__name__, str(e)[:200]))
                s.log.append(('thread-exc', self.name, type(e).__name__))
        finally:
            _SYS_SETTRACE(None)
            self.task.state = 'done'
            if s.active:
                try:
                    s.switch()
                except (Hang, StepCap):
                    pass

    def start(self):
        s = self._env.sched
        if self.task.state != 'new':
            raise RuntimeError('threads can only be started once')
        env = self._env
        if env.knobs.get('thread_start_fail') and s.active and s.current is not s.main:
            # the system is out of threads: a helper thread started by one of the parent's
            # worker threads (the reader of a child's stderr) cannot be created
            env.helper_starts = getattr(env, 'helper_starts', 0) + 1
            if env.helper_starts == env.knobs['thread_start_fail']:
                s.probe('thread_start_fail_injected')
                env.fired.append('thread_start_fail')
                s.log.append(('thread-start-fail', self.name))
                info = getattr(env, 'last_child_by_task', {}).get(id(s.current))
                if info is not None:
                    info['reader_failed'] = True    # its report cannot be read by the parent
                raise RuntimeError("can't start new thread (injected)")
        if env.knobs.get('main_thread_start_fail') and s.active and s.current is s.main:
            # ... or the worker thread of a layer itself, started by the main thread
            env.main_starts = getattr(env, 'main_starts', 0) + 1
            if env.main_starts == env.knobs['main_thread_start_fail']:
                s.probe('main_thread_start_fail_injected')
                env.fired.append('main_thread_start_fail')
                s.log.append(('thread-start-fail', self.name))
                raise RuntimeError("can't start new thread (injected)")
        self.task.state = 'runnable'
        self.real = real_threading.Thread(target=self._body, daemon=True,
                                          name='vsim-' + self.name)
        s.tasks.append(self.task)
        self.ident = self.native_id = 1000 + self._env.nthreads
        self.real.start()
        s.switch()

    def is_alive(self):
        s = self._env.sched
        if s.active and self._env.yield_is_alive and s.current is s.main:
            # real threads are pre-empted anywhere: between two statements of the parent's loop
            # a worker may publish its results and end - asking for liveness is a point where
            # the simulator lets that happen - one step of somebody else, or (one time in
            # three) a long pre-emption: everybody else runs until nobody can any more
            if s.rng.random() < 0.33:
                s.probe('main_preempted_long')
                s.block(lambda: not s.others_can_run(), 'pre-empted')
            else:
                s.switch_point()
        return self.task.state not in ('done', 'new')

    isAlive = is_alive

    def join(self, timeout=None):
        s = self._env.sched
        if timeout is None:
            s.block(lambda: self.task.state == 'done', 'join ' + self.name)
        else:
            from . import simsync
            simsync._wait(s, lambda: self.task.state == 'done', 'join ' + self.name, timeout)

    def setDaemon(self, v):
        self.daemon = bool(v)

    def isDaemon(self):
        return self.daemon

    def getName(self):
        return self.name

    def setName(self, n):
        self.name = n


# ---------------------------------------------------------------------------------------
# parent output capture


def _stdout_yield():
    """A parent stdout that is slow (a pipe to a pager, a full terminal buffer): every flush is
    a scheduling point, so anything may happen between two of the parent's writes."""
    env = CURRENT_ENV
    if env is None or not env.sched.active or env.sched.current is not env.sched.main:
        return
    if env.knobs.get('stdout_stall'):
        # the consumer of the parent's stdout is slow: the flush blocks for a while
        env.sched.probe('stdout_flush_stall')
        env.sched.main.idle_exempt = True      # (not a poll of the resume loop)
        try:
            env.clock.sleep(env.knobs['stdout_stall'])
        finally:
            env.sched.main.idle_exempt = False
    elif env.knobs.get('stdout_yields'):
        env.sched.probe('stdout_flush_yield')
        env.sched.switch_point()


class _TagBinary:
    def __init__(self, log, tag):
        self.log, self.tag = log, tag

    def write(self, b):
        if not isinstance(b, (bytes, bytearray, memoryview)):
            raise TypeError('a bytes-like object is required, not %r' % type(b).__name__)
        env = CURRENT_ENV
        if env is not None and env.knobs.get('worker_write_error') and env.sched.active and \
                env.sched.current is not env.sched.main:
            # the parent's stdout is a non-blocking pipe / a full disk: one write made by a
            # worker thread (the immediate collector relays from there) fails
            env.worker_writes = getattr(env, 'worker_writes', 0) + 1
            if env.worker_writes == env.knobs['worker_write_error']:
                env.sched.probe('worker_write_error_injected')
                env.fired.append('worker_write_error')
                raise BlockingIOError(errno.EAGAIN, 'write could not complete without '
                                      'blocking (injected)')
        self.log.append((self.tag, bytes(b).decode('utf-8', 'replace')))
        return len(b)

    def writelines(self, lines):
        for ln in lines:
            self.write(ln)

    def flush(self):
        _stdout_yield()


class TagStream(io.TextIOBase):
    """sys.stdout / sys.stderr stand-in of the parent: appends to one ordered, tagged log."""

    encoding = 'utf-8'
    errors = 'strict'

    def __init__(self, log, tag, ascii_only=False):
        self.log, self.tag = log, tag
        self.buffer = _TagBinary(log, tag)
        # a terminal/pipe that cannot encode everything (PYTHONIOENCODING=ascii, LANG=C)
        self.ascii_only = ascii_only
        if ascii_only:
            self.encoding = 'ascii'

    def write(self, s):
        if not isinstance(s, str):
            raise TypeError('write() argument must be str, not %s' % type(s).__name__)
        if self.ascii_only:
            s.encode('ascii')        # raises UnicodeEncodeError like a strict ascii stream
        env = CURRENT_ENV
        if self.tag == 'O' and env is not None and env.knobs.get('stdout_write_fail') and \
                env.sched.active and env.sched.current is env.sched.main:
            # a failing system call: the n-th write of the main thread to the parent's stdout
            # fails once (disk full, pipe gone) - an environment fault at an arbitrary point
            env.main_writes = getattr(env, 'main_writes', 0) + 1
            if env.main_writes == env.knobs['stdout_write_fail']:
                env.sched.probe('stdout_write_fail_injected')
                env.fired.append('stdout_write_fail')
                raise OSError(errno.ENOSPC, 'No space left on device (injected)')
        self.log.append((self.tag, s))
        return len(s)

    def flush(self):
        _stdout_yield()

    def isatty(self):
        return False

    def writable(self):
        return True


# ---------------------------------------------------------------------------------------
# environment of one execution


# properties whose executions have worker threads in the parent: one seed in four runs them under
# line-level pre-emption by default (knob 'line_preempt' overrides)
PREEMPT_PROPS = ('C01', 'C02', 'C03', 'C06', 'C07', 'C10', 'C11', 'C12', 'C16')


class Env:
    def __init__(self, spec, sched_mode, knobs):
        self.spec = spec
        self.world = spec['world']
        self.plan = spec.get('plan', [])
        self.knobs = knobs
        self.clock = Clock(base=knobs.get('clock_base', 1000000.0))
        self.sched = Sched(self.clock, sched_mode)
        self.script_parts = [CHILD_SCRIPT]
        self.children = []
        self.fired = []
        self.spawn_count = {}
        self.nthreads = 0
        self.nspawn_attempts = 0
        self.invariant_violations = []
        self.child_events = []
        self.processes = 1
        self.trace = None
        self.barrier_open = False
        # one run in five starts its children with freshly imported runner modules (an
        # exec()ed child shares no module state with its parent); knob overrides
        sc = knobs.get('actor_step_cost')
        if sc is None:
            sc = {1: 0.003, 2: 0.0007}.get((spec.get('seed') or 0) % 4, 0.0)
        self.sched.step_cost = sc
        # line-level pre-emption inside the runner's own code (see make_preempt_tracer)
        lp = knobs.get('line_preempt')
        if lp is None and spec.get('property') in PREEMPT_PROPS and \
                (spec.get('seed') or 0) % 4 == 3:
            lp = (0.02, 0.1, 0.3)[((spec.get('seed') or 0) // 4) % 3]
        self.line_preempt = lp or 0
        self.preempt_budget = [knobs.get('preempt_budget', 1500)]
        self.preempt_rng = random.Random((spec.get('seed') or 0) * 7919 + 13)
        ya = knobs.get('yield_is_alive')
        self.yield_is_alive = bool(ya) if ya is not None else (spec.get('seed') or 0) % 3 != 0
        fc = knobs.get('fresh_child')
        self.fresh_child = bool(fc) if fc is not None else (spec.get('seed') or 0) % 5 == 0

    def processes_limit(self):
        return max(1, self.processes)

    def channel_faults(self, layer, kind):
        return [e for e in self.plan
                if e['site'] == 'channel' and e['ident'] == layer and e['a'] == kind]

    def on_child_event(self, ev):
        self.trace.append(ev)

    def make_gate(self, actor):
        mode = self.sched.mode
        order = mode.get('completion_order')
        if order:
            # priority permutation over spawn indexes; an actor may exit only when no other
            # *live* actor precedes it
            prio = {idx: p for p, idx in enumerate(order)}
            sched = self.sched
            if mode.get('strict'):
                # strict: every child that precedes this one in the order (spawned or not
                # yet) must have exited first.  Only used for orders that the N-slot start
                # policy makes feasible: then a correct parent can never deadlock, while one
                # that fails to refill a free slot ends in a structural HANG.
                def strict_gate(a):
                    mine = prio.get(a.simpid - 1)
                    if mine is None:
                        return True
                    exited = {b.simpid - 1 for b in sched.actors if not b.alive}
                    return all(idx in exited for idx, p in prio.items() if p < mine)
                return strict_gate

            def gate(a):
                mine = prio.get(a.simpid - 1, 10 ** 6 + a.simpid)
                for b in sched.actors:
                    if b is not a and b.alive and \
                            prio.get(b.simpid - 1, 10 ** 6 + b.simpid) < mine:
                        return False
                return True
            return gate
        if mode.get('barrier'):
            want = mode['barrier']
            sched = self.sched
            env = self

            def gate(a):
                if env.barrier_open:
                    return True
                if len(sched.alive_actors()) >= want:
                    env.barrier_open = True
                    return True
                return False
            return gate
        return None

    def prepare_tape(self, layer, simpid, tape, status, child_args):
        """Apply channel faults to the child's tape; compute what was truly reported."""
        truth = None
        exitcode = None
        for tag, payload in tape:
            if tag == 'R':
                truth = payload
            elif tag == 'X':
                exitcode = payload
        died = None
        uncaught = [p.decode() if isinstance(p, bytes) else p for t, p in tape if t == 'U']
        if os.WIFSIGNALED(status):
            died = 'signal:%d' % os.WTERMSIG(status)
        elif exitcode is None:
            died = 'exit:%d' % os.WEXITSTATUS(status)
        elif uncaught:
            # the run inside the child was ended by an exception nobody caught (sys.exit() in
            # a layer hook, ^C): whatever it still wrote while unwinding is no report of a run
            died = 'uncaught:%s' % uncaught[0]
        # locate the report: the E bytes written inside SubProcess.report (bracketed by M/N
        # records when that method exists to be wrapped), else the E bytes after the child
        # closed its stdout (C record)
        anchor = 'M' if any(t == 'M' for t, _ in tape) else 'C'
        closed_at = None
        for i, (tag, payload) in enumerate(tape):
            if tag == anchor:
                closed_at = i
        report = b''
        if closed_at is not None:
            report = b''.join(p for t, p in tape[closed_at + 1:] if t == 'E')
        if os.WIFSIGNALED(status):
            wait_status = -os.WTERMSIG(status)
        elif exitcode is not None:
            wait_status = exitcode
        else:
            wait_status = os.WEXITSTATUS(status)
        info = {'layer': layer, 'simpid': simpid, 'truth': truth, 'died': died,
                'wait_status': wait_status,
                'exitcode': exitcode, 'report_len': len(report), 'report_complete': False,
                'args': child_args, 'channel': [], 'noise_header_before_report': False}
        complete = bool(report) and truth is not None
        newtape = list(tape)
        for e in self.plan:
            if e['site'] != 'channel' or e['ident'] != layer:
                continue
            a = e['a']
            if a == 'truncate_report' and closed_at is not None and report:
                off = e['at'] % (len(report) + 1)
                if e.get('at_exact') is not None:
                    off = min(e['at_exact'], len(report))
                # (a cut that only removes trailing white space of the report loses no data:
                # the parent may use what it got)
                harmless = off >= len(report.rstrip())
                if off < len(report):
                    out = []
                    seen = 0
                    past = False
                    for i, rec in enumerate(newtape):
                        if past:
                            break
                        out.append(rec)
                        if rec[0] == anchor:
                            # from here on count E bytes
                            rest = newtape[i + 1:]
                            for rec2 in rest:
                                if rec2[0] == 'E':
                                    take = min(len(rec2[1]), off - seen)
                                    if take > 0:
                                        out.append(('E', rec2[1][:take]))
                                    seen += take
                                    if seen >= off:
                                        break
                                elif rec2[0] in ('T', 'F', 'C', 'N'):
                                    out.append(rec2)
                            out.append(('K', None))
                            past = True
                    newtape = out
                    if not harmless:
                        complete = False
                    info['channel'].append(('truncate_report', off))
                    self.fired.append('truncate_report')
            elif a == 'kill_after':
                n = e['n'] % (len(newtape) + 1)
                # only counts as a fault if something of the report is lost
                lost_report = any(t == 'E' for t, _ in newtape[n:]) and \
                    (closed_at is None or n <= len(newtape))
                if n < len(newtape):
                    tail = newtape[n:]
                    newtape = newtape[:n] + [('K', None)]
                    if e.get('drop_unflushed'):
                        # a block-buffered stdout loses what was written after the last flush
                        lastflush = -1
                        for i, rec in enumerate(newtape):
                            if rec[0] == 'F' and rec[1] == 'O':
                                lastflush = i
                        newtape = [rec for i, rec in enumerate(newtape)
                                   if not (rec[0] == 'O' and i > lastflush)]
                        self.fired.append('drop_unflushed')
                    if any(t == 'E' for t, _ in tail) or closed_at is None or n <= closed_at:
                        if lost_report or closed_at is None or n <= closed_at:
                            complete = False
                    info['channel'].append(('kill_after', n))
                    self.fired.append('kill_after')
            elif a == 'noise':
                pos = e['pos'] % (len(newtape) + 1)
                if e.get('after_report'):
                    # right after the last report record (before the process exits)
                    last = max([i for i, r_ in enumerate(newtape) if r_[0] in ('E', 'C')] or [0])
                    pos = last + 1
                elif e.get('in_report'):
                    # a whole line from somebody else (a leftover thread, a C library) lands
                    # between two lines of the report
                    # (behind the header line - in front of it the line is just more noise -
                    # and in front of the end marker; print() writes a line in several pieces)
                    ends = [i for i, r_ in enumerate(newtape) if r_[0] == 'E' and
                            closed_at is not None and i > closed_at and r_[1].endswith(b'\n')]
                    cands = ends[1:-1]      # after the header's newline .. before the marker's
                    if cands:
                        pos = cands[e.get('pos', 0) % len(cands)] + 1
                        if not e['text'].endswith('\n'):
                            e = dict(e, text=e['text'] + '\n')
                text = e['text'].encode('utf-8')
                newtape.insert(pos, (e.get('stream', 'E'), text))
                info['channel'].append(('noise', e.get('stream', 'E'), pos, len(text)))
                self.fired.append('channel_noise')
            elif a == 'stall':
                pos = e['pos'] % (len(newtape) + 1)
                if e.get('after_close'):
                    # slow between closing its stdout and writing the report (shutdown work)
                    cl = [i for i, r_ in enumerate(newtape) if r_[0] == 'C']
                    if cl:
                        pos = cl[-1] + 1
                newtape.insert(pos, ('S', e['dt']))
                self.fired.append('stall')
            elif a == 'detach':
                pos = e['pos'] % (len(newtape) + 1)
                if e.get('after_report'):
                    last = max([i for i, r_ in enumerate(newtape) if r_[0] in ('E', 'C')] or [0])
                    pos = last + 1
                newtape.insert(pos, ('D', None))
                info['channel'].append(('detach', pos))
                self.fired.append('detach')
        # completeness, uniformly for every channel fault: what reaches the pipe after the
        # child closed its stdout must begin with the whole report (trailing white space aside)
        delivered = b''
        seen_close = False
        for tag, payload in newtape:
            if tag in ('K', 'D'):
                break
            if tag == anchor:
                seen_close = True
            elif tag == 'E' and seen_close:
                delivered += payload
        complete = bool(report) and truth is not None and not uncaught and \
            delivered.startswith(report.rstrip())
        info['report_complete'] = bool(complete)
        # anything on the E stream before the report that parses as three integers?
        pre = b''
        seen_c = False
        for tag, payload in newtape:
            if tag == anchor:
                seen_c = True
            elif tag == 'E' and not seen_c:
                pre += payload
        # noise inserted after C but before the report also counts: compute from E stream
        if closed_at is None:
            pre_all = pre
        else:
            pre_all = pre
        for ln in pre_all.splitlines():
            try:
                nums = list(map(int, ln.strip().split()))
                if len(nums) in (3, 4):
                    info['noise_header_before_report'] = True
            except ValueError:
                pass
        info['tape'] = newtape
        info['err_bytes'] = sum(len(p) for t, p in newtape if t == 'E')
        info['out_bytes'] = sum(len(p) for t, p in newtape if t == 'O')
        return info


_LOCK_TYPE = type(real_threading.Lock())
_RLOCK_TYPE = type(real_threading.RLock())
CURRENT_ENV = None     # the Env of the execution in progress (for adopted foreign objects)
SEAM_MODULES = ('zope.testrunner.runner', 'zope.testrunner.statistics',
                'zope.testrunner.shuffle', 'zope.testrunner.formatter',
                'zope.testrunner.process', 'zope.testrunner')
_PRISTINE = {}


def _pristine(mod):
    """Names of `mod` that refer to a nondeterminism source, as first seen (before any seam)."""
    import queue as real_queue
    import time as real_time
    if mod.__name__ not in _PRISTINE:
        found = {}
        for k, v in list(vars(mod).items()):
            if v is real_time:
                found[k] = 'time'
            elif v is real_subprocess:
                found[k] = 'subprocess'
            elif v is real_threading:
                found[k] = 'threading'
            elif v is real_queue:
                found[k] = 'queue'
            elif v is real_time.time:
                found[k] = 'time.time'
            elif v is real_time.sleep:
                found[k] = 'time.sleep'
            elif v in (real_time.monotonic, real_time.perf_counter):
                found[k] = 'time.monotonic'
            elif v is real_subprocess.Popen:
                found[k] = 'subprocess.Popen'
            elif v is real_threading.Thread:
                found[k] = 'threading.Thread'
            elif v is real_threading.Lock:
                found[k] = 'threading.Lock'
            elif v is real_threading.RLock:
                found[k] = 'threading.RLock'
            elif v is real_threading.Event:
                found[k] = 'threading.Event'
            elif v is real_threading.Condition:
                found[k] = 'threading.Condition'
            elif v is real_threading.Semaphore:
                found[k] = 'threading.Semaphore'
            elif v is real_queue.Queue:
                found[k] = 'queue.Queue'
            elif v is real_queue.SimpleQueue:
                found[k] = 'queue.SimpleQueue'
            # module-level synchronisation objects (created when the module was imported,
            # i.e. real ones): every execution gets a simulated instance in their place
            elif isinstance(v, real_threading.Event):
                found[k] = 'inst:threading.Event'
            elif type(v) is _LOCK_TYPE:
                found[k] = 'inst:threading.Lock'
            elif type(v) is _RLOCK_TYPE:
                found[k] = 'inst:threading.RLock'
            elif isinstance(v, real_threading.Condition):
                found[k] = 'inst:threading.Condition'
            elif isinstance(v, real_threading.Semaphore):
                found[k] = 'inst:threading.Semaphore'
            elif isinstance(v, real_queue.Queue):
                found[k] = 'inst:queue.Queue'
        _PRISTINE[mod.__name__] = found
    return _PRISTINE[mod.__name__]


class OsSeam:
    """`os` as seen by the runner's scheduling code: the machine may have fewer CPUs than -j."""

    def __init__(self, cpus):
        self._cpus = cpus

    def cpu_count(self):
        return self._cpus

    def process_cpu_count(self):
        return self._cpus

    def sched_getaffinity(self, pid):
        return set(range(self._cpus))

    def __getattr__(self, name):
        return getattr(os, name)


def sim_namespaces(env):
    """The simulated time/subprocess/threading/queue modules of one execution."""
    import queue as real_queue
    from . import simsync
    s = env.sched
    Popen = type('Popen', (SimPopen,), {'_env': env})
    Thread = type('Thread', (SimThread,), {'_env': env})
    sub = types.SimpleNamespace(
        Popen=Popen, PIPE=-1, STDOUT=-2, DEVNULL=-3,
        TimeoutExpired=real_subprocess.TimeoutExpired,
        CalledProcessError=real_subprocess.CalledProcessError,
        SubprocessError=real_subprocess.SubprocessError,
        list2cmdline=real_subprocess.list2cmdline)
    thr = types.SimpleNamespace(
        Thread=Thread,
        Lock=lambda: simsync.SimLock(s), RLock=lambda: simsync.SimRLock(s),
        Event=lambda: simsync.SimEvent(s),
        Condition=lambda lock=None: simsync.SimCondition(s, lock),
        Semaphore=lambda value=1: simsync.SimSemaphore(s, value),
        BoundedSemaphore=lambda value=1: simsync.SimSemaphore(s, value),
        current_thread=real_threading.current_thread,
        main_thread=real_threading.main_thread,
        enumerate=real_threading.enumerate,
        active_count=real_threading.active_count,
        get_ident=real_threading.get_ident,
        local=real_threading.local,
        excepthook=real_threading.excepthook,
        settrace=real_threading.settrace, setprofile=real_threading.setprofile,
        TIMEOUT_MAX=real_threading.TIMEOUT_MAX)
    que = types.SimpleNamespace(
        Queue=lambda maxsize=0: simsync.SimQueue(s, maxsize),
        LifoQueue=lambda maxsize=0: simsync.SimLifoQueue(s, maxsize),
        SimpleQueue=lambda: simsync.SimSimpleQueue(s),
        Empty=real_queue.Empty, Full=real_queue.Full)
    return {'time': env.clock, 'subprocess': sub, 'threading': thr, 'queue': que}


def install_seams(env, real=False):
    """Point every name through which the runner reaches a clock, processes, threads or queues
    at the simulator - whichever way it was imported (`import time`, `from time import sleep`,
    ...).  real=True (layer children, stub validation): only the clock is simulated."""
    import importlib
    import queue as real_queue
    ns = sim_namespaces(env) if not real else {
        'time': env.clock, 'subprocess': real_subprocess, 'threading': real_threading,
        'queue': real_queue}
    for name in SEAM_MODULES:
        try:
            mod = importlib.import_module(name)
        except ImportError:
            continue
        for k, what in _pristine(mod).items():
            if what.startswith('inst:'):
                if not real:
                    base, _, attr = what[5:].partition('.')
                    setattr(mod, k, getattr(ns[base], attr)())
                continue
            base, _, attr = what.partition('.')
            if not attr:
                setattr(mod, k, ns[base])
            elif what == 'time.monotonic':
                setattr(mod, k, env.clock.time)
            else:
                setattr(mod, k, getattr(ns[base], attr))
    if not real:
        rmod = sys.modules['zope.testrunner.runner']
        rmod.Runner = RecordingRunner
        cpus = getattr(env, 'knobs', {}).get('cpus')
        if cpus and getattr(rmod, 'os', None) is os:
            rmod.os = OsSeam(cpus)


def _scan_pristine():
    import importlib
    for name in SEAM_MODULES:
        try:
            _pristine(importlib.import_module(name))
        except ImportError:
            pass


_scan_pristine()


class Result:
    pass


def execute(spec, options, sched_mode=None, knobs=None, defaults=None, label='main',
            run_kwargs=None, found_suites=None):
    """One complete run of the real runner on spec's world under the simulator."""
    knobs = dict(spec.get('knobs') or {}, **(knobs or {}))
    from . import world as _Wm
    if _Wm.LAST_ROOT and os.path.isdir(_Wm.LAST_ROOT):
        os.chdir(_Wm.LAST_ROOT)     # every execution starts in the world's directory
    prepare()
    global _DIRTY
    _DIRTY = True
    env = Env(spec, sched_mode if sched_mode is not None else spec.get('sched'), knobs)
    purge_world_modules()
    rt = simrt.install(spec['world'], spec.get('plan', []), 0, None)
    env.trace = rt.trace
    install_seams(env)
    global CURRENT_ENV
    CURRENT_ENV = env
    log = []
    out = TagStream(log, 'O', ascii_only=bool(knobs.get('parent_stdout_ascii')))
    err = TagStream(log, 'E')
    rt.orig_stdout, rt.orig_stderr = out, err
    old = sys.stdout, sys.stderr, sys.stdin
    sys.stdout, sys.stderr = out, err
    if not isinstance(sys.stdin, io.StringIO):
        sys.stdin = io.StringIO('c\n' * 200)      # scripted answers for -D (pdb: continue)
    RecordingRunner.instances[:] = []
    if defaults is None and knobs.get('defaults_split') is not None:
        from . import world as _W
        defaults, options = _W.split_defaults(list(options),
                                              random.Random(knobs['defaults_split']))
        defaults = defaults or None
    script = CHILD_SCRIPT
    if knobs.get('script_link') and _Wm.LAST_ROOT and os.path.isdir(_Wm.LAST_ROOT):
        # the runner script was started through a symbolic link (a shared runtests script
        # linked into a working copy): the children must be started through the same path
        script = os.path.join(os.path.dirname(_Wm.LAST_ROOT.rstrip(os.sep)), 'runtests')
        if not os.path.islink(script):
            os.symlink(CHILD_SCRIPT, script)
    env.script_parts = [script]
    args = [script] + list(options)
    for a in list(defaults or []):
        if a.startswith('-j'):
            try:
                env.processes = int(a[2:])
            except ValueError:
                pass
    for a in args:
        if a.startswith('-j'):
            try:
                env.processes = int(a[2:])
            except ValueError:
                pass
    res = Result()
    res.label = label
    res.options = list(options)
    res.all_options = list(defaults or []) + list(options)
    res.raised = None
    res.verdict = None
    res.hang = None
    outer_trace = sys.gettrace()
    tracing = bool(env.line_preempt or knobs.get('global_random_noise'))
    if tracing:
        _SYS_SETTRACE(make_preempt_tracer(env))
    try:
        try:
            if found_suites is not None:
                # the documented seam for feeding suites without a source tree
                runner = RecordingRunner(defaults, list(args), found_suites=found_suites,
                                         script_parts=[script], cwd=os.getcwd())
                runner.run()
                res.verdict = runner.failed
            else:
                if knobs.get('argv_from_sys'):
                    # command-line use: the runner takes its arguments from sys.argv itself
                    old_argv = sys.argv
                    sys.argv = list(args)
                    try:
                        res.verdict = sys.modules['zope.testrunner'].run_internal(
                            defaults, None, **(run_kwargs or {}))
                    finally:
                        sys.argv = old_argv
                else:
                    res.verdict = sys.modules['zope.testrunner'].run_internal(
                        defaults, list(args), **(run_kwargs or {}))
        except Hang as e:
            res.hang = str(e)
        except StepCap:
            # a bound of the simulator, not a verdict about the code under test
            raise HarnessError('scheduler step cap exceeded')
        except BaseException as e:  # noqa
            res.raised = (type(e).__name__, str(e)[:300],
                          traceback.format_exc()[-1500:])
    finally:
        if tracing:
            _SYS_SETTRACE(outer_trace)
        res.stdout_after = sys.stdout
        res.stderr_after = sys.stderr
        # (rt.orig_*: the streams the world expects - a test may have wrapped them for good)
        res.streams_restored = (sys.stdout is rt.orig_stdout, sys.stderr is rt.orig_stderr)
        sys.stdout, sys.stderr, sys.stdin = old
        env.sched.active = False
    if HARNESS_ERRORS:
        raise HarnessError('; '.join(HARNESS_ERRORS))
    if res.raised and res.raised[0] == 'HarnessError':
        raise HarnessError(res.raised[1] + res.raised[2])
    res.out = log
    res.text = ANSI_RE.sub('', ''.join(t for _, t in log))
    res.trace = rt.trace
    res.runner = runner_truth(RecordingRunner.instances[-1]) \
        if RecordingRunner.instances else None
    s = env.sched
    res.sched = {'steps': s.steps, 'simtime': env.clock.now - knobs.get('clock_base', 1000000.0),
                 'max_alive': s.max_alive, 'spawned': s.spawned, 'exit_order': s.exit_order,
                 'thread_excs': s.thread_excs, 'log': s.log, 'choices': s.choices,
                 'probes': s.probes}
    res.children = [{k: v for k, v in c.items() if k != 'tape'} for c in env.children]
    res.child_tapes = [c['tape'] for c in env.children]
    res.actors = [{'name': a.name, 'simpid': a.simpid, 'killed': a.killed_by_parent,
                   'reaped': a.reaped, 'pos': a.pos, 'len': len(a.tape),
                   'backpressure': a.backpressure} for a in s.actors]
    res.fired = list(env.fired)
    res.invariant_violations = env.invariant_violations
    res.nthreads = env.nthreads
    res.processes = env.processes
    return res


def digest_of(res, norm=None):
    h = hashlib.sha256()
    h.update(repr(res.verdict).encode())
    h.update(repr(res.raised[:2] if res.raised else None).encode())
    h.update(json.dumps(res.trace).encode())
    if '--gc-after-test' not in getattr(res, 'all_options', res.options):
        # (with --gc-after-test the runner prints how many objects each collection found: a
        # property of the interpreter's heap, not of the simulated execution)
        out = json.dumps(res.out)
        if norm is not None:
            out = norm(out)
        h.update(out.encode())
    h.update(repr(res.sched['log']).encode())
    h.update(repr(res.sched['choices']).encode())
    return h.hexdigest()[:20]
