"""thread-sim: real threads started by tests (threading.Thread or _thread.start_new_thread),
parked on events; the runner sees them through views in which every registered thread's ident is
assigned by the simulator (fresh or a recycled one - the OS does recycle thread ids) and release
points are plan entries ("thread T ends now", waited for until it left the real tables)."""
import _thread
import sys
import threading
import time


class ThreadView:
    """What threading.enumerate() shows for one thread, with the simulated ident."""

    def __init__(self, tw, thread):
        self._tw = tw
        self._t = thread
        # frozen at first sight: a real Thread object keeps its ident after it ended, and the
        # OS may hand the same real ident to a later thread - which must not leak through
        rec = tw.by_real.get(thread.ident)
        if rec is not None and rec.get('thread') is None and rec['kind'] == 'lowlevel' \
                and isinstance(thread, threading._DummyThread) and rec.get('poked'):
            # a _thread-level thread that made itself known to threading later on
            # (threading.current_thread() registers a _DummyThread for it)
            self._rec = rec
        else:
            self._rec = rec if (rec is not None and rec.get('thread') is thread) else None
        self.ident = self._rec['sim'] if self._rec is not None else thread.ident

    @property
    def name(self):
        if self._rec is not None and self._rec['kind'] == 'lowlevel':
            return 'Dummy-%d' % self._rec['sim']     # (the real counter-based name is not stable)
        return self._t.name

    def is_alive(self):
        return self._t.is_alive()

    @property
    def daemon(self):
        return self._t.daemon

    def __repr__(self):
        rec = self._rec
        if rec is not None:
            return '<Thread %s>' % rec['tname']
        return '<Thread %s (pre-existing)>' % self._t.name


class ThreadWorld:
    def __init__(self, rng, p_reuse):
        self.rng = rng
        self.p_reuse = p_reuse
        self.reg = {}
        self.by_real = {}
        self.free = []
        self.next_ident = 5000
        self.views = {}
        self.reused = 0
        self.log = []
        self.stale = {}      # id(_DummyThread) -> view, for poked threads that have ended

    # -- plan actions ---------------------------------------------------------------------
    def start(self, e):
        tname = e['tname']
        rec = {'tname': tname, 'kind': e['kind'], 'name': e.get('name'), 'go': threading.Event(),
               'ready': threading.Event(), 'real': None, 'thread': None, 'alive': True}

        rec.update({'poke': threading.Event(), 'poke_ack': threading.Event(), 'poked': False})

        def body():
            rec['real'] = threading.get_ident()
            rec['ready'].set()
            for _ in range(600):
                if rec['go'].wait(0.1):
                    break
                if rec['poke'].is_set():
                    rec['poke'].clear()
                    threading.current_thread()     # logging, Thread.join, ... do this
                    rec['poke_ack'].set()

        if self.free and self.rng.random() < self.p_reuse:
            rec['sim'], rec['prev_kind'] = self.free.pop(self.rng.randrange(len(self.free)))
            rec['recycled'] = True
            self.reused += 1
        else:
            self.next_ident += 1
            rec['sim'] = self.next_ident
            rec['recycled'] = False
        if e['kind'] == 'threading':
            th = threading.Thread(target=body, name=e.get('name') or tname, daemon=True)
            rec['thread'] = th
            th.start()
        else:
            _thread.start_new_thread(body, ())
        if not rec['ready'].wait(10):
            raise RuntimeError('thread did not start')
        self.by_real[rec['real']] = rec
        self.reg[tname] = rec
        self.log.append(('start', tname, rec['sim'], rec['recycled']))

    def end(self, e):
        rec = self.reg.get(e['tname'])
        if rec is None or not rec['alive']:
            return
        rec['go'].set()
        if rec['thread'] is not None:
            rec['thread'].join(10)
        deadline = time.time() + 10
        while rec['real'] in sys._current_frames():
            if time.time() > deadline:
                raise RuntimeError('thread did not end')
            time.sleep(0.0005)
        if rec.get('poked'):
            for t in threading.enumerate():
                if isinstance(t, threading._DummyThread) and t.ident == rec['real']:
                    key = (id(t), rec['tname'])
                    v = self.views.get(key) or ThreadView(self, t)
                    self.stale[id(t)] = v
        rec['alive'] = False
        if self.by_real.get(rec['real']) is rec:
            del self.by_real[rec['real']]
        self.free.append((rec['sim'], rec['kind']))
        self.log.append(('end', e['tname'], rec['sim']))

    def poke(self, e):
        """A running _thread-level thread calls threading.current_thread(): from now on
        threading.enumerate() knows it (as a _DummyThread)."""
        rec = self.reg.get(e['tname'])
        if rec is None or not rec['alive'] or rec['kind'] != 'lowlevel' or rec['poked']:
            return
        rec['poked'] = True
        rec['poke'].set()
        if not rec['poke_ack'].wait(10):
            raise RuntimeError('thread did not answer the poke')
        self.log.append(('poke', e['tname'], rec['sim']))

    def rename(self, e):
        """A running threading.Thread gets another name (a pool worker picking up a job)."""
        rec = self.reg.get(e['tname'])
        if rec is None or not rec['alive'] or rec['thread'] is None:
            return
        rec['thread'].name = e['name']
        self.log.append(('rename', e['tname'], e['name']))

    def end_all(self):
        for rec in list(self.reg.values()):
            if rec['alive']:
                self.end({'tname': rec['tname']})

    # -- views (the seams) -------------------------------------------------------------------
    def xlate(self, real_ident):
        rec = self.by_real.get(real_ident)
        if rec is not None and rec['alive']:
            return rec['sim']
        return real_ident

    def current_frames(self):
        return {self.xlate(i): f for i, f in sys._current_frames().items()}

    def enumerate(self):
        out = []
        for t in threading.enumerate():
            rec = self.by_real.get(t.ident)
            if isinstance(t, threading._DummyThread) and (rec is None or not rec['alive']
                                                          or not rec.get('poked')):
                # CPython keeps the _DummyThread of an ended thread listed for ever (is_alive()
                # stays true).  The stale entry of one of the world's ended threads is shown
                # with the simulated ident it had - unless a live thread of the world now has
                # that ident (a new threading.Thread replaces the entry in CPython, too)
                v = self.stale.get(id(t))
                if v is not None and not any(r['alive'] and r['sim'] == v.ident
                                             for r in self.reg.values()):
                    out.append(v)
                continue
            # (CPython hands the stale _DummyThread of an ended thread to a new thread that got
            # the same real ident: such an object stands for whichever thread owns it now)
            key = (id(t), rec['tname']) if isinstance(t, threading._DummyThread) \
                and rec is not None else id(t)
            v = self.views.get(key)
            if v is None or v._t is not t:
                v = self.views[key] = ThreadView(self, t)
            out.append(v)
        return out


class ThreadingSeam:
    def __init__(self, tw):
        self._tw = tw

    def enumerate(self):
        return self._tw.enumerate()

    def __getattr__(self, name):
        return getattr(threading, name)


class SysSeam:
    """`sys` as seen by threadsupport, should it ask sys._current_frames() itself."""

    def __init__(self, tw):
        self._tw = tw

    def _current_frames(self):
        return self._tw.current_frames()

    def __getattr__(self, name):
        return getattr(sys, name)
