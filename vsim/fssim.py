"""fs-sim: generated directory trees on tmpfs behind a `find.os` seam that owns what the file
system does not promise (enumeration order) and injects unlink faults; before/after snapshots."""
import hashlib
import os


class SimOS:
    """Stand-in for the `os` module as seen by zope.testrunner.find."""

    def __init__(self, rng, unlink_faults=None, shuffle=True, concurrent=None, orphans=(),
                 vanish=None):
        self._rng = rng
        self._faults = dict(unlink_faults or {})   # n-th unlink -> exception name
        # a concurrent writer (code generator, the tests of another runner): just before the
        # n-th unlink it writes the source file beside a stale-looking bytecode file of ANOTHER
        # directory - from then on that file is no orphan
        self._concurrent = dict(concurrent or {})
        self._orphans = list(orphans)
        self.written = []        # source files the concurrent writer created
        self.protected = []      # bytecode files that stopped being orphans
        self._shuffle = shuffle
        self.unlinked = []
        self.fault_paths = []    # paths whose unlink was made to fail
        self.unlink_attempts = 0
        self.walks = 0
        # a directory that a concurrent process removes after its parent was listed and before
        # the walk enters it (a pure timing race: legal at any moment)
        self._vanish = vanish
        self.vanished = False
        self.path = os.path
        self.sep = os.sep

    def walk(self, top, *a, **kw):
        self.walks += 1
        for dirpath, dirs, files in os.walk(top, *a, **kw):
            if self._vanish and not self.vanished and \
                    any(os.path.join(dirpath, d) == self._vanish for d in dirs):
                self._remove_vanishing()
            if self._shuffle:
                self._rng.shuffle(dirs)
                self._rng.shuffle(files)
            yield dirpath, dirs, files     # the very lists os.walk prunes on

    def _remove_vanishing(self):
        import shutil
        if os.path.isdir(self._vanish) and not os.path.islink(self._vanish):
            shutil.rmtree(self._vanish)
            self.vanished = True

    def scandir(self, path='.'):
        # (walkers built on scandir/listdir meet the same race when they enter the directory)
        if self._vanish and not self.vanished and os.path.abspath(str(path)) == self._vanish:
            self._remove_vanishing()
        return os.scandir(path)

    def listdir(self, path='.'):
        if self._vanish and not self.vanished and os.path.abspath(str(path)) == self._vanish:
            self._remove_vanishing()
        return os.listdir(path)

    def _concurrent_write(self, current):
        here = os.path.realpath(os.path.dirname(current))
        cands = [p for p in self._orphans
                 if os.path.lexists(p) and not os.path.lexists(p[:-1])
                 and os.path.realpath(os.path.dirname(p)) != here and p not in self.protected]
        if not cands:
            return
        p = cands[self._rng.randrange(len(cands))]
        with open(p[:-1], 'w') as fh:
            fh.write('x = 1\n')
        self.written.append(p[:-1])
        self.protected.append(p)

    def unlink(self, path, *a, **kw):
        self.unlink_attempts += 1
        if self._concurrent.get(self.unlink_attempts):
            self._concurrent_write(path)
        exc = self._faults.get(self.unlink_attempts)
        if exc in ('FileNotFoundError', 'PermissionError'):
            self.fault_paths.append(os.path.join(os.path.realpath(os.path.dirname(path)),
                                                 os.path.basename(path)))
        if exc == 'FileNotFoundError':
            # a concurrent runner removed it first
            os.unlink(path)
            raise FileNotFoundError(2, 'No such file or directory (injected)', path)
        if exc == 'PermissionError':
            raise PermissionError(13, 'Permission denied (injected)', path)
        os.unlink(path, *a, **kw)
        self.unlinked.append(path)

    remove = unlink

    def __getattr__(self, name):
        return getattr(os, name)


def snapshot(root):
    out = {}
    for dirpath, dirs, files in os.walk(root):
        dirs.sort()
        for d in dirs:
            out[os.path.join(dirpath, d) + '/'] = 'dir'
        for f in files:
            p = os.path.join(dirpath, f)
            if os.path.islink(p):
                # a symbolic link is an entry of its own: what it points to is listed (and
                # compared) where it really lives
                out[p] = 'link:' + os.readlink(p)
                continue
            with open(p, 'rb') as fh:
                data = fh.read()
            out[p] = '%d:%s' % (len(data), hashlib.sha1(data).hexdigest()[:12])
    return out


def materialise(tree, parent, order_rng=None, top=None):
    """tree = {'name', 'dirs': [tree...], 'files': {name: content}, 'links': {name: target}};
    creation order may be permuted (a file system's enumeration order often follows creation
    order).  A link is a symbolic link to the directory `target` (relative to `top`)."""
    path = os.path.join(parent, tree['name'])
    top = top or parent
    os.makedirs(path, exist_ok=True)
    items = [('f', n) for n in tree['files']] + [('d', i) for i in range(len(tree['dirs']))] + \
        [('l', n) for n in sorted(tree.get('links') or {})] + \
        [('fl', n) for n in sorted(tree.get('flinks') or {})]
    if order_rng is not None:
        order_rng.shuffle(items)
    for kind, x in items:
        if kind == 'f':
            with open(os.path.join(path, x), 'w') as fh:
                fh.write(tree['files'][x])
        elif kind == 'l':
            os.symlink(os.path.join(top, tree['links'][x]), os.path.join(path, x))
        elif kind == 'fl':
            # a file entry that is a symbolic link (to a file that may not exist yet)
            os.symlink(os.path.join(top, tree['flinks'][x]), os.path.join(path, x))
        else:
            materialise(tree['dirs'][x], path, order_rng, top)
    return path


def children(node, nodes):
    """(name, child node, is_link) for the real sub-directories and the symlinked ones;
    `nodes` maps relative paths to nodes (link targets are looked up there)."""
    out = [(d['name'], d, False) for d in node['dirs']]
    for name, target in sorted((node.get('links') or {}).items()):
        out.append((name, nodes[target], True))
    return out


def walk_tree(tree, prefix=''):
    """Yield (relative dir path, tree node)."""
    rel = os.path.join(prefix, tree['name']) if prefix else tree['name']
    yield rel, tree
    for d in tree['dirs']:
        for x in walk_tree(d, rel):
            yield x
