"""Entry script of REAL processes of the stub-validation tier: a fresh interpreter (parent or
layer child) that loads the spec named by VERIF_SPEC_FILE, installs the world runtime and runs
the real runner with no seam replaced.  Trace events are appended to VERIF_TRACE_FILE."""
import json
import os
import sys
import zlib

sys.path.insert(0, os.path.dirname(os.path.dirname(os.path.abspath(__file__))))
from vsim import boot  # noqa: E402

boot.bootstrap()


def pid_of_layer(name):
    return 1 + zlib.crc32(name.encode()) % 1000000


if __name__ == '__main__':
    from vsim import simrt
    spec = json.load(open(os.environ['VERIF_SPEC_FILE']))
    simpid = 0
    if '--resume-layer' in sys.argv:
        simpid = pid_of_layer(sys.argv[sys.argv.index('--resume-layer') + 1])
    fd = os.open(os.environ['VERIF_TRACE_FILE'], os.O_WRONLY | os.O_APPEND | os.O_CREAT)
    rt = simrt.install(spec['world'], spec.get('plan', []), simpid,
                       lambda ev: os.write(fd, (json.dumps(ev) + '\n').encode()))
    rt.orig_stdout, rt.orig_stderr = sys.stdout, sys.stderr
    rt.real_stderr = sys.__stderr__
    import zope.testrunner
    zope.testrunner.run()
