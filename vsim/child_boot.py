"""Entry script of a *real* layer child (stub-validation tier): a fresh interpreter that loads
the spec named by VERIF_SPEC_FILE, installs the world runtime and runs the real runner."""
import json
import os
import sys

sys.path.insert(0, os.path.dirname(os.path.dirname(os.path.abspath(__file__))))
from vsim import boot  # noqa: E402

boot.bootstrap()

if __name__ == '__main__':
    from vsim import simrt
    spec = json.load(open(os.environ['VERIF_SPEC_FILE']))
    simpid = 0
    if '--resume-layer' in sys.argv:
        simpid = 1 + int(sys.argv[sys.argv.index('--resume-layer') + 2])
    tracefile = os.environ.get('VERIF_TRACE_FILE')
    sink = None
    if tracefile:
        fd = os.open(tracefile, os.O_WRONLY | os.O_APPEND | os.O_CREAT)
        sink = lambda ev: os.write(fd, (json.dumps(ev) + '\n').encode())  # noqa: E731
    rt = simrt.install(spec['world'], spec.get('plan', []), simpid, sink)
    rt.orig_stdout, rt.orig_stderr = sys.stdout, sys.stderr
    rt.real_stderr = sys.stderr
    import zope.testrunner
    zope.testrunner.run()
