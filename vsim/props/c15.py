"""C15 - stale-bytecode cleanup deletes only orphaned .pyc/.pyo files."""
import os
import random

from .. import common as C
from .. import core
from .. import fssim
from . import _ws

ID = 'C15'
TIERS = {'quick': {'seeds': 15000, 'seconds': 45, 'determinism': 32},
         'thorough': {'seconds': 900, 'determinism': 256, 'minimise_s': 120}}
RULE = ('generated directory trees on tmpfs (<= 40 entries, depth <= 3) mixing .py/.pyc/.pyo, '
        'look-alikes (x.pyc.bak, .pyc, pyc, X.PYC, a.b.pyc), __pycache__, ignored directories, '
        'unrelated files; -k / --usecompiled / --path / --test-path / --ignore_dir combinations '
        'incl. overlapping roots; the whole --list-tests command runs with find.os replaced by a '
        'seam that shuffles the enumeration order of every directory and injects unlink faults '
        '(FileNotFoundError: a concurrent runner removed it; PermissionError). Oracle: snapshot '
        '(path, size, sha1) before/after: deleted == model orphans (fault-free), deleted subset of '
        'orphans under faults, nothing created or modified, nothing deleted with -k/--usecompiled. '
        'distinct = digest of tree shape + options + faults; non-trivial = the tree has an orphan '
        'or a look-alike')
RULE += (' One spec in six narrows discovery with -s/--package (the clean-up must not follow).')
RULE += (' After an unlink fault a run that goes on to discovery must have removed every other orphan.')
RULE += (' ' + 'Later additions: a concurrent writer creates the source file beside a stale-looking bytecode file of another directory just before the n-th unlink: that file must survive.')
REAL_VS_STUB = {
    'real': 'Runner.configure, options, Find feature, remove_stale_bytecode, walk_with_symlinks, '
            'find_test_files on a real tmpfs tree',
    'stub': 'find.os (enumeration order of os.walk, unlink faults, a concurrent writer); no layer '
            'children',
}
ASSUMPTIONS = ['"ignored directory" is read as the --ignore_dir set (what the anchored mechanism '
               'prunes); symlinked directories and file links are generated - what is deleted through a '
               'link is compared under its real path']
DIRNAMES = ['pkga', 'pkgb', 'sub', 'tests', '__pycache__', '.git', 'CVS', 'node_modules',
            'my-dir', '_darcs', 'skipme', 'deep']
FILENAMES = ['mod.py', 'mod.pyc', 'mod.pyo', 'old.pyc', 'old.pyo', 'x.pyc.bak', '.pyc', 'pyc',
             'X.PYC', 'notes.txt', 'data.pycx', '__init__.py', '__init__.pyc', 'test_a.py',
             'test_a.pyc', 'tests.py', '.pyo', 'a.b.pyc', 'a.b.py', 'gone.pyc', 'Mod.pyc',
             'mod.py~', 'oldpyc', 'z.pyo',
             # names that sort between x.py and x.pyc / x.pyo
             'mod.py.orig', 'mod.py,cover', 'mod.py2', 'mod.pyc.bak', 'mod.py-', 'mod.pyb',
             'test_a.py.rej', 'test_a.pyc~', 'mod.py.pyc', 'mod.pyi']
LINKNAMES = ['lnk', 'shared', '__pycache__', 'ln-k', '.git', 'skipme', 'CVS', 'tests']
DEFAULT_IGNORE = ['.git', '.svn', 'CVS', '{arch}', '.arch-ids', '_darcs']


def gen_tree(rng, name, depth, budget):
    files = {}
    for f in rng.sample(FILENAMES, rng.randint(0, min(8, len(FILENAMES)))):
        if budget[0] <= 0:
            break
        budget[0] -= 1
        files[f] = 'x = 1\n' if f.endswith('.py') else 'bytes-of-%s' % f
    dirs = []
    if depth < 3:
        for d in rng.sample(DIRNAMES, rng.randint(0, 3)):
            if budget[0] <= 0:
                break
            budget[0] -= 1
            dirs.append(gen_tree(rng, d, depth + 1, budget))
    return {'name': name, 'dirs': dirs, 'files': files}


def gen(seed):
    rng = random.Random(seed)
    tree = gen_tree(rng, 'root', 0, [40])
    ext = None
    if rng.random() < 0.3:
        # a second tree outside every search path, reached through symbolic links only
        ext = gen_tree(rng, 'ext', 1, [14])
        targets = [rel for rel, node in fssim.walk_tree(ext)]
        rng.shuffle(targets)
        hosts = [node for rel, node in fssim.walk_tree(tree)]
        for target in targets[:rng.randint(1, 3)]:
            host = rng.choice(hosts)
            free = [n for n in LINKNAMES if n not in (host.get('links') or {})
                    and n not in [d['name'] for d in host['dirs']] and n not in host['files']]
            if free:
                host.setdefault('links', {})[rng.choice(free)] = target
    subdirs = [rel for rel, node in fssim.walk_tree(tree) if rel != 'root'
               and not any(p in ('__pycache__',) for p in rel.split('/'))]
    if rng.random() < 0.25:
        # bytecode entries that are symbolic links to files elsewhere (a shared cache, a data
        # file): as orphans the LINKS go, never what they point to
        allfiles = [rel + '/' + f for t in ([tree] + ([ext] if ext else []))
                    for rel, node in fssim.walk_tree(t) for f in node['files']]
        hosts = [node for rel, node in fssim.walk_tree(tree)]
        for _ in range(rng.randint(1, 3)):
            if not allfiles:
                break
            host = rng.choice(hosts)
            name = rng.choice(['lnk.pyc', 'gone2.pyo', 'mod.pyc', 'cache.pyc', 'test_a.pyo'])
            if name in host['files'] or name in (host.get('flinks') or {}):
                continue
            host.setdefault('flinks', {})[name] = rng.choice(allfiles)
    if rng.random() < 0.15:
        # a source file that is a dangling symbolic link (editor lock file, a checkout whose
        # target went away): it still is the same-named .py beside its bytecode
        hosts = [node for rel, node in fssim.walk_tree(tree)]
        for _ in range(rng.randint(1, 2)):
            host = rng.choice(hosts)
            name = rng.choice(['mod.py', 'old.py', 'gone.py', 'z.py', 'test_a.py'])
            if name not in host['files'] and name not in (host.get('flinks') or {}):
                host.setdefault('flinks', {})[name] = 'ext/nowhere/' + name
    roots = [('path', 'root')]
    if subdirs and rng.random() < 0.4:
        roots.append((rng.choice(['path', 'test-path']), rng.choice(subdirs)))
    if rng.random() < 0.15:
        roots.append(('test-path', 'root'))
    if rng.random() < 0.2:
        roots = [(rng.choice(['path', 'test-path']), r) for _, r in roots]
    opt = {'roots': roots}
    r = rng.random()
    if r < 0.15:
        opt['keep'] = True
    elif r < 0.3:
        opt['usecompiled'] = True
    if rng.random() < 0.3:
        opt['ignore_dir'] = rng.sample(['skipme', 'deep', 'sub', 'pkgb'], rng.randint(1, 2))
    if seed % 6 == 4 and all(k == 'path' for k, _ in roots):
        # -s/--package narrows DISCOVERY to some packages; the clean-up still covers every
        # searched source directory (sub-packages and ignored names included)
        tops = [d['name'] for d in tree['dirs'] if d['name'].isidentifier()
                and d['name'] != '__pycache__']
        if tops:
            pk = rng.choice(tops)
            node = [d for d in tree['dirs'] if d['name'] == pk][0]
            subs = [d['name'] for d in node['dirs'] if d['name'].isidentifier()
                    and d['name'] != '__pycache__']
            if subs and rng.random() < 0.5:
                pk += '.' + rng.choice(subs)
            opt['package'] = [pk]
    faults = {}
    if rng.random() < 0.25:
        faults[str(rng.randint(1, 4))] = rng.choice(['FileNotFoundError', 'PermissionError'])
    concurrent = {}
    if seed % 5 == 2:
        concurrent[str(1 + (seed // 5) % 3)] = 'write_py'
    spec = {'property': ID, 'seed': seed, 'tree': tree, 'opt': opt, 'faults': faults,
            'concurrent': concurrent,
            'world': {'layers': [], 'modules': []}, 'plan': [], 'knobs': {},
            'sched': {'prng': seed}}
    if ext is not None:
        spec['ext'] = ext
    return spec


def model_orphans(tree, opt, ext=None):
    """Relative paths the statement says must be deleted."""
    if opt.get('keep') or opt.get('usecompiled'):
        return set()
    ignore = set(DEFAULT_IGNORE) | set(opt.get('ignore_dir') or [])
    nodes = dict(fssim.walk_tree(tree))
    if ext is not None:
        nodes.update(fssim.walk_tree(ext))
    out = set()

    def visit(rel, node):
        files = set(node['files']) | set(node.get('flinks') or {})
        for f in files:
            if (f.endswith('.pyc') or f.endswith('.pyo')) and f[:-1] not in files:
                out.add(rel + '/' + f)
        for name, child, is_link in fssim.children(node, nodes):
            if name in ignore or name == '__pycache__':
                continue
            # a symlinked directory is searched like any other; what is deleted there is
            # reported under its real path
            real = (node['links'][name] if is_link else rel + '/' + name)
            visit(real, child)

    for _, r in opt['roots']:
        visit(r, nodes[r])
    return out


def lookalikes(tree):
    n = 0
    for rel, node in fssim.walk_tree(tree):
        for f in node['files']:
            if f in ('x.pyc.bak', '.pyc', 'pyc', 'X.PYC', 'data.pycx', '.pyo', 'oldpyc',
                     'Mod.pyc', 'a.b.pyc'):
                n += 1
    return n


def run(spec, ctx):
    import sys
    core.prepare()
    ZF = sys.modules['zope.testrunner.find']
    rng = random.Random(spec['seed'] * 31 + 7)
    if spec.get('ext') is not None:
        fssim.materialise(spec['ext'], ctx.scratch, order_rng=rng)
    base = fssim.materialise(spec['tree'], ctx.scratch, order_rng=rng)
    top = ctx.scratch
    opt = spec['opt']
    args = []
    for kind, rel in opt['roots']:
        args += ['--' + kind, os.path.join(top, rel)]
    if opt.get('keep'):
        args.append('-k')
    if opt.get('usecompiled'):
        args.append('--usecompiled')
    for d in opt.get('ignore_dir') or []:
        args += ['--ignore_dir', d]
    for pk in opt.get('package') or []:
        args += ['-s', pk]
    args.append('--list-tests')
    want = model_orphans(spec['tree'], opt, spec.get('ext'))
    simos = fssim.SimOS(rng, {int(k): v for k, v in spec.get('faults', {}).items()},
                        concurrent={int(k): v for k, v in (spec.get('concurrent') or {}).items()},
                        orphans=sorted(os.path.join(top, w) for w in want))
    before = fssim.snapshot(top)
    old = ZF.os
    ZF.os = simos
    try:
        res = core.execute(spec, args)
    finally:
        ZF.os = old
    after = fssim.snapshot(top)
    rel = lambda p: os.path.relpath(p.rstrip('/'), top)  # noqa: E731
    deleted = {rel(p) for p in before if p not in after}
    created = {rel(p) for p in after if p not in before} - {rel(p) for p in simos.written}
    modified = {rel(p) for p in before if p in after and before[p] != after[p]}
    # bytecode files that got their source file (from the concurrent writer) before the runner
    # had looked at their directory are no orphans any more
    protected = {w for w in want if os.path.join(top, w)[:-1] in simos.written}
    want = want - protected
    viols = []
    faulted = simos.unlink_attempts >= min([int(k) for k in spec.get('faults', {})] or [10 ** 9])
    mode = 'keep' if (opt.get('keep') or opt.get('usecompiled')) else 'clean'
    if created:
        viols.append(C.viol('C15/created', 'created %r' % sorted(created)))
    if modified:
        viols.append(C.viol('C15/modified', 'modified %r' % sorted(modified)))
    extra = deleted - want
    if extra:
        kinds = sorted({('in-__pycache__' if '__pycache__' in p.split('/') else
                         'source-written-meanwhile' if p in protected else
                         'has-py-sibling' if p.endswith(('.pyc', '.pyo')) else 'not-bytecode')
                        for p in extra})
        viols.append(C.viol('C15/deleted-non-orphan/%s/%s' % (mode, '+'.join(kinds)),
                            'deleted %r which are not orphans (orphans: %r)'
                            % (sorted(extra), sorted(want))))
    missing = want - deleted
    if missing and not faulted:
        viols.append(C.viol('C15/orphan-not-deleted',
                            'orphans %r were not deleted (deleted %r); run %s'
                            % (sorted(missing), sorted(deleted),
                               'raised %r' % (res.raised[:2],) if res.raised else 'returned')))
    if missing and faulted and not res.raised:
        # an unlink failed (the file vanished under the runner's hands / may not be removed) and
        # the runner decided to go on to discovery: then it went on with a clean tree, but for
        # the files it could not remove - "deletes every such orphan" before discovery
        excused = {os.path.relpath(p, os.path.realpath(top)) for p in simos.fault_paths} | \
                  {rel(p) for p in simos.fault_paths}
        left = missing - excused
        if left:
            viols.append(C.viol('C15/orphan-not-deleted/discovery-went-on-after-unlink-fault',
                                'an unlink failed (%s), the run went on to discovery, but the '
                                'orphans %r are still there (deleted %r)'
                                % (', '.join(spec['faults'].values()), sorted(left),
                                   sorted(deleted))))
    unimportable = bool(opt.get('package')) and res.raised and \
        ('in import_name' in res.raised[2] or 'in test_dirs' in res.raised[2])
    if res.raised and not faulted and not unimportable:
        # (-s naming something that cannot be imported ends the run in discovery, AFTER the
        # clean-up: the deleted set above is still judged)
        viols.append(C.viol('C15/run-aborted/%s' % _ws.frames_sig(res.raised),
                            repr(res.raised)))
    res.out = []      # listing output contains import errors of the generated files: irrelevant
    if res.raised:
        res.raised = (res.raised[0], '', '')
    out = _ws.std_out(spec, ctx, [res], viols,
                      {'orphans': len(want), 'deleted': len(deleted),
                       'unlink_faults_fired': int(faulted), 'lookalikes': lookalikes(spec['tree']),
                       'concurrent_writes': len(simos.written),
                       'mode_' + mode: 1, 'walks': simos.walks},
                      nontrivial=bool(want) or lookalikes(spec['tree']) > 0)
    import hashlib
    import json
    out['shape'] = hashlib.sha256(json.dumps([sorted(before.values()) and
                                              sorted(rel(p) for p in before),
                                              sorted(opt.items(), key=str),
                                              spec.get('faults')], default=str)
                                  .encode()).hexdigest()[:16]
    out['digest'] = hashlib.sha256((out['digest'] + repr(sorted(deleted))).encode()) \
        .hexdigest()[:20]
    if faulted:
        out['faults'] = {'unlink:' + v: 1 for v in spec['faults'].values()}
    if simos.written:
        out.setdefault('faults', {})
        out['faults']['concurrent-writer:source-file-created'] = len(simos.written)
    return out
