"""C13 - buffered output is attributed correctly; std streams are always restored."""
from .. import core
from .. import truth as TR
from .. import world as W
from . import _ws
from .. import xpy
from .. import common as C
import re

ID = 'C13'
TIERS = {'quick': {'seeds': 15000, 'seconds': 45, 'determinism': 48},
         'thorough': {'seconds': 900, 'determinism': 512, 'minimise_s': 120}}
RULE = ('seeded sequential runs (15% with -j N: the children\'s output is relayed by the parent); every test phase may write unique tokens to sys.stdout / '
        'sys.stderr / their .buffer / print, with and without newline; every outcome kind incl. '
        'tests with >= 2 result events; --buffer on 70%. Monitored inside hooks: identity of '
        'sys.stdout/sys.stderr; over the merged stdout+stderr log: tokens of non-failing tests '
        'absent, tokens of failing tests present and only inside that test\'s own region. '
        'distinct = digest of hook-site sequence + faults; non-trivial = a token was written')
RULE += (' Cross-version tier (directed specs): plain --buffer histories also run as real processes under CPython 3.9/3.10/3.11/3.13; stream identity at the per-test hooks and presence/absence of every token are judged there (attribution regions only in the simulated run).')
RULE += (' One seed in six: part of the output is written by a thread that existed before the test started (a worker thread doing printing jobs).')
RULE += (' ' + 'Later additions: tests that replace, swap, wrap or close the std streams; tests that drive a nested in-process run of the runner (inner run must hand back the streams it found; the outer capture stays intact).')
BIAS = dict(n_test_faults=[0, 1, 2, 3, 4], n_layer_faults=[0], p_buffer=0.7, p_j=0.15, p_xml=0.15,
            p_repeat=0.2, p_shuffle=0.15, v=[0, 1, 2, 3], n_writes=[1, 2, 3, 4, 6],
            profile=dict(p_subtests=0.2, p_setup=0.6, p_teardown=0.6, p_cleanup=0.3,
                         p_deco_xfail=0.12, max_layers=3))


def gen(seed):
    spec = _ws.gen_ws(seed, ID, BIAS)
    import random
    rng = random.Random(seed ^ 0xC13)
    if seed % 6 == 2 and not spec['opt'].get('j'):
        # some of the tests' output is written by a thread that already existed when the test
        # started (a layer's worker thread doing a printing job for the test): captured and
        # attributed like the test's own writes
        trng = random.Random(seed ^ 0x7EAD)
        for e in spec['plan']:
            if e.get('a') == 'write' and e.get('stream') in ('stdout', 'stderr', 'print') \
                    and trng.random() < 0.6:
                e['stream'] = 'thread.' + ('stderr' if e['stream'] == 'stderr' else 'stdout')
    if not spec['opt'].get('buffer') and rng.random() < 0.25:
        # without --buffer the runner must leave the std streams alone - also a wrapper that
        # a test installed for the rest of the process
        from .. import common as C
        disc = [d for d in W.Model(spec['world']).discover()
                if C.test_phases(d) and not d['t'].get('doctest')]
        if disc:
            d = rng.choice(disc)
            spec['plan'].insert(0, C.fault_entry(d, rng.choice(C.test_phases(d)),
                                                 {'a': 'wrap_stdout'}))
    if spec['opt'].get('buffer') and not spec['opt'].get('j') and rng.random() < 0.2:
        # with --buffer: a test that leaves sys.stdout/sys.stderr pointing at a stream of its
        # own - between tests and after the run the original objects must be back all the same
        from .. import common as C
        disc = [d for d in W.Model(spec['world']).discover()
                if C.test_phases(d) and not d['t'].get('doctest')]
        if disc:
            d = rng.choice(disc)
            phases = C.test_phases(d)
            late = [ph for ph in phases if ph in ('tearDown', 'cleanup')]
            if late and rng.random() < 0.5:
                # the tidy variant: save early, put back in tearDown / a cleanup
                early = [ph for ph in phases if ph not in ('tearDown', 'cleanup')]
                spec['plan'].append(C.fault_entry(d, rng.choice(early),
                                                  {'a': 'swap_stdout', 'step': 'save'}))
                spec['plan'].append(C.fault_entry(d, rng.choice(late),
                                                  {'a': 'swap_stdout', 'step': 'restore'}))
            elif rng.random() < 0.25:
                # closes the stream: reading the capture back fails, the run ends with that
                # exception - and with the original streams back in place
                spec['plan'].append(C.fault_entry(d, rng.choice(phases), {'a': 'close_stdout'}))
            else:
                spec['plan'].append(C.fault_entry(d, rng.choice(phases),
                                                  {'a': 'replace_stdout',
                                                   'which': rng.choice(['stdout', 'stderr'])}))
            spec['plan'] = _ws.order_plan(spec['plan'])
    if spec['opt'].get('buffer') and not spec['opt'].get('j') and seed % 9 in (2, 6) and \
            not any(e['a'] in ('close_stdout', 'replace_stdout', 'swap_stdout', 'wrap_stdout')
                    for e in spec['plan']):
        # a stream object remembered during one test is put back later - while another test
        # runs (seed % 9 == 2) or by a layer's per-test hook between two tests (== 6)
        from .. import common as C
        srng = random.Random(seed ^ 0x57a5)
        m_ = W.Model(spec['world'])
        disc = [d for d in m_.discover() if C.test_phases(d) and not d['t'].get('doctest')]
        # (both in one layer where possible: the capture streams belong to a layer's result)
        by_layer = {}
        for d in disc:
            by_layer.setdefault(d['layer'], []).append(d)
        same = [v for v in by_layer.values() if len(v) >= 2]
        if same and srng.random() < 0.8:
            disc = srng.choice(sorted(same, key=lambda v: v[0]['tid']))
        if len(disc) >= 2:
            a_, b_ = sorted(srng.sample(range(len(disc)), 2))
            stash = C.fault_entry(disc[a_], srng.choice(C.test_phases(disc[a_])),
                                  {'a': 'stash_stdout'})
            if seed % 9 == 2:
                back = C.fault_entry(disc[b_], srng.choice(C.test_phases(disc[b_])),
                                     {'a': 'reinstall_stdout'})
            else:
                hooks = [(L['name'], h) for L in spec['world']['layers']
                         for h in ('testTearDown', 'testSetUp') if m_.has_hook(L['name'], h)]
                back = None
                if hooks:
                    L_, h_ = srng.choice(hooks)
                    back = {'site': 'layer.' + h_, 'ident': L_, 'a': 'reinstall_stdout'}
            if back is not None:
                spec['plan'] = [e for e in spec['plan'] if e['a'] == 'write'] + [stash, back] + \
                    [e for e in spec['plan'] if e['a'] != 'write']
    if not spec['opt'].get('j') and not spec['opt'].get('xml') and rng.random() < 0.05:
        # a test that drives a nested in-process run of the runner (tests of test infrastructure)
        from .. import common as C
        disc = [d for d in W.Model(spec['world']).discover()
                if C.test_phases(d) and not d['t'].get('doctest')]
        if disc and not any(e['a'] in ('close_stdout', 'replace_stdout', 'swap_stdout',
                                       'wrap_stdout') for e in spec['plan']):
            d = rng.choice(disc)
            nested = C.fault_entry(d, rng.choice(C.test_phases(d)),
                                   {'a': 'nested_run', 'buffer': rng.random() < 0.8,
                                    'inner_replaces': rng.random() < 0.25})
            # after the writes of that phase, before anything that raises there
            spec['plan'] = [e for e in spec['plan'] if e['a'] == 'write'] + [nested] + \
                [e for e in spec['plan'] if e['a'] != 'write']
    return spec


STREAM_ACTIONS = ('close_stdout', 'replace_stdout', 'swap_stdout', 'wrap_stdout', 'stash_stdout',
                  'reinstall_stdout', 'nested_run')
HEAD_RE = re.compile(r'^(?:Failure|Error) in test (\w+) \(([\w.]+?)\)', re.M)


def directed(tier, base_seed):
    """Cross-version specs (vsim/xpy.py): plain --buffer histories - every outcome kind, tokens
    on every stream, no test that manipulates the streams itself - as real processes under the
    other supported CPython versions."""
    out = []
    n = 16 if tier == 'quick' else 300
    k = 0
    while len(out) < n and k < n * 6:
        spec = gen(8800000 + base_seed * 1019 + k)
        k += 1
        if any(e['a'] in STREAM_ACTIONS for e in spec['plan']) or spec['opt'].get('j') or \
                spec['opt'].get('xml') or spec['opt'].get('pm'):
            continue
        if any(t.get('idx') for m_ in spec['world']['modules'] for c in m_['classes']
               for t in c['tests']):
            continue
        spec['opt']['buffer'] = True
        spec['opt'].pop('color', None)
        spec['xpy'] = True
        out.append(spec)
    return out


def xpy_check(spec, m, real, ver):
    """The schedule- and version-independent part of the statement on a real run: between tests
    the std streams are the originals; tokens of tests without a failure/error report of their
    own appear nowhere, tokens of reported tests appear.  (Which tests are reported is read from
    the run itself: unittest's outcome rules differ between versions, C12 owns the counts.)"""
    viols = []
    text = real.text + real.stderr
    reported = set()
    for meth, dotted in HEAD_RE.findall(text):
        if dotted.endswith('.' + meth):
            dotted = dotted[:-len(meth) - 1]       # (3.11+ names the method twice)
        reported.add((meth, dotted))
    for ev in real.trace:
        if ev[1] in ('layer.testSetUp', 'layer.testTearDown') and ev[4] != 3:
            viols.append(C.viol('C13/stream-replaced/%s/buffer/py%s' % (ev[1], ver),
                                'under CPython %s (real process) sys.stdout/sys.stderr are not '
                                'the original objects inside %s(%s)' % (ver, ev[1], ev[2])))
            break
    plan = spec['plan']
    for pid, evs in sorted(C.by_pid(real.trace).items()):
        occs, _ = C.occurrences(evs)
        times = {}
        for oc in occs:
            times[oc['tid']] = times.get(oc['tid'], 0) + 1
        for oc in occs:
            if oc['open'] or times[oc['tid']] != 1:
                # (the reports name tests, not occurrences: a test that ran more than once -
                # --repeat, contained twice - is judged in the simulated run only)
                continue
            tid = oc['tid']                      # module.Class.method
            dotted, meth = tid.rsplit('.', 1)
            last = None
            for ev in oc['events']:
                if ev[1] == 'fault' and ev[2].startswith('write:') and last is not None:
                    tok = plan[ev[3]]['text'].replace('%o', str(last[3])).strip()
                    n = text.count(tok)
                    if (meth, dotted) in reported and n == 0:
                        viols.append(C.viol('C13/output-of-failing-test-lost/py' + ver,
                                            'under CPython %s token %s of reported test %s is '
                                            'missing from the output' % (ver, tok, tid)))
                    elif (meth, dotted) not in reported and n:
                        viols.append(C.viol('C13/output-of-non-failing-test-shown/py' + ver,
                                            'under CPython %s token %s of %s (no failure or '
                                            'error reported for it) appears in the output'
                                            % (ver, tok, tid)))
                elif ev[1] != 'fault':
                    last = ev
    return viols[:3]


def run(spec, ctx):
    src = W.materialise(spec['world'], ctx.scratch)
    m = W.Model(spec['world'])
    res = core.execute(spec, W.argv(spec['opt'], src))
    T = TR.Truth(m, res.trace)
    viols = _ws.oracle_buffer(m, spec, res, T)
    nw = sum(1 for ev in res.trace if ev[1] == 'fault' and ev[2].startswith('write:'))
    xprobes = {}
    if spec.get('xpy') and not res.raised:
        for ver, py in xpy.interpreters():
            real = xpy.execute(spec, W.argv(spec['opt'], src), ctx.scratch, py)
            if real is None or real.raised:
                xprobes['xpy_unavailable'] = xprobes.get('xpy_unavailable', 0) + 1
                continue
            xprobes['xpy_runs_py' + ver] = 1
            viols += xpy_check(spec, m, real, ver)
    return _ws.std_out(spec, ctx, [res], viols, dict(xprobes, token_writes=nw),
                       nontrivial=nw > 0)
