"""C02 - the verdict is 'failed' exactly when something went wrong, in every mode."""
import copy
import random

from .. import common as C
from .. import core
from .. import truth as TR
from .. import world as W
from . import _ws
from . import c12

ID = 'C02'
TIERS = {'quick': {'seeds': 6000, 'seconds': 45, 'determinism': 32},
         'thorough': {'seconds': 900, 'determinism': 256, 'minimise_s': 120}}
RULE = ('seeded worlds with bad outcomes of every kind at random positions (or none), arbitrary '
        'stdout/stderr noise from tests, import failures, layer failures, NotImplementedError '
        'tearDowns; child faults: spawn failure, death (exit 0/3, SIGKILL, SIGSEGV) at a random hook '
        'of the child, truncated report. Verdict of run_internal vs. ground truth from trace + '
        'fired faults, in the spec\'s mode and the opposite mode. distinct = digest of hook-site '
        'sequences + faults + completion order; non-trivial = a fault fired or children ran')
BIAS = dict(p_weird_ids=0.15, n_test_faults=[0, 0, 1, 1, 2], n_layer_faults=[0, 0, 0, 1, 2], p_import_fault=0.08,
            p_buffer=0.2, p_j=0.4, p_repeat=0.15, p_shuffle=0.1, v=[0, 1, 2], p_occ=0.2,
            n_writes=[0, 0, 1, 3],
            write_streams=['stdout', 'stderr', 'print', 'realstderr'],
            profile=dict(p_doctest=0.2, p_deco_xfail=0.12))
HOWS = ['exit0', 'exit3', 'kill', 'segv']


def gen(seed):
    spec = _ws.gen_ws(seed, ID, BIAS)
    rng = random.Random(seed ^ 0x5eed)
    world = spec['world']
    m = W.Model(world)
    r = rng.random()
    if r < 0.3:
        # a child dies at one of its hooks
        disc = m.discover()
        sites = []
        for d in disc:
            for ph in C.test_phases(d):
                sites.append(C.fault_entry(d, ph, {}))
        for L in world['layers']:
            for h in L['hooks']:
                sites.append({'site': 'layer.' + h, 'ident': L['name']})
        for mod in world['modules']:
            sites.append({'site': 'module.import', 'ident': '%s.tests.%s' % (W.PKG, mod['name'])})
        if sites:
            e = dict(rng.choice(sites))
            from .c07 import legal_how
            e.update({'a': 'die', 'how': legal_how(e['site'], rng.choice(HOWS + ['sysexit', 'kbdint'])),
                      'where': 'child'})
            spec['plan'].append(e)
            if not spec['opt'].get('j'):
                spec['opt']['j'] = rng.randint(2, 3)
    elif r < 0.42 and world['layers']:
        L = rng.choice(world['layers'])['name']
        spec['plan'].append({'site': 'channel', 'ident': m.full(L), 'a': 'spawn_fail',
                             'errno': rng.choice(['ENOMEM', 'EAGAIN', 'ENOENT']),
                             'exc': rng.choice(['OSError', 'OSError', 'ValueError',
                                                'UnicodeEncodeError', 'SubprocessError'])})
        if not spec['opt'].get('j'):
            spec['opt']['j'] = rng.randint(2, 3)
    elif r < 0.55 and world['layers']:
        L = rng.choice(world['layers'])['name']
        spec['plan'].append({'site': 'channel', 'ident': m.full(L), 'a': 'truncate_report',
                             'at': rng.randint(0, 200)})
        if not spec['opt'].get('j'):
            spec['opt']['j'] = rng.randint(2, 3)
    if seed % 9 == 1:
        _ws.add_binary_stdout_in_resumed_layers(spec, seed)
    if seed % 9 == 3 and len(world['layers']) >= 2:
        # worker threads of a -j run pre-empted at almost every line of the runner's code
        spec['opt']['j'] = 2 + seed % 2
        spec['knobs']['line_preempt'] = 0.5
    if seed % 9 == 7 and world['layers']:
        # a transient read error on one child's stdout pipe (reported, retried): the child's
        # report still counts
        srng = random.Random(seed ^ 0xE10)
        L = srng.choice(world['layers'])['name']
        spec['plan'].append({'site': 'channel', 'ident': m.full(L), 'a': 'eintr',
                             'nth': srng.randint(1, 6),
                             'errno': srng.choice(['EIO', 'EAGAIN', 'EINTR'])})
        if not spec['opt'].get('j'):
            spec['opt']['j'] = srng.randint(2, 3)
    if seed % 9 == 4 and world['layers']:
        # a slow child: its report arrives long (in virtual time) after it closed its stdout, or
        # it stalls in the middle - the verdict must wait for it
        srng = random.Random(seed ^ 0x57a11)
        L = srng.choice(world['layers'])['name']
        spec['plan'].append({'site': 'channel', 'ident': m.full(L), 'a': 'stall',
                             'pos': srng.randint(0, 60), 'dt': srng.choice([2.0, 45.0, 600.0]),
                             'after_close': srng.random() < 0.7})
        if not spec['opt'].get('j'):
            spec['opt']['j'] = srng.randint(2, 3)
    if rng.random() < 0.15 and not spec['opt'].get('j'):
        cands = [L['name'] for L in world['layers'] if m.has_hook(L['name'], 'tearDown')]
        if cands:
            spec['plan'].append({'site': 'layer.tearDown', 'ident': rng.choice(cands),
                                 'a': 'raise', 'exc': 'NotImplementedError', 'where': 'parent'})
    if rng.random() < 0.12:
        # bytes that are not valid UTF-8 on a child's real stderr
        disc = [d for d in m.discover() if C.test_phases(d)]
        if disc:
            d = rng.choice(disc)
            junk = rng.choice([b'caf\xe9 na\xefve\n', b'\xff\xfe\x00binary\x80\x81\n',
                               b'\xc3(\n', b'\xe2\x82 truncated', b'\x80' * 300 + b'\n'])
            spec['plan'].append(C.fault_entry(d, rng.choice(C.test_phases(d)),
                                              {'a': 'write', 'stream': 'realstderr.bytes',
                                               'text': '', 'hex': junk.hex()}))
            if not spec['opt'].get('j'):
                spec['opt']['j'] = rng.randint(2, 3)
    if rng.random() < 0.06:
        # a test module that imports in the parent but not in a child (environment dependent)
        mod = rng.choice(world['modules'])
        spec['plan'].append({'site': 'module.import',
                             'ident': '%s.tests.%s' % (W.PKG, mod['name']), 'a': 'raise',
                             'exc': rng.choice(['ValueError', 'KeyError']), 'where': 'child'})
        if not spec['opt'].get('j'):
            spec['opt']['j'] = 2
    spec['plan'] = _ws.order_plan(spec['plan'])
    return spec


def add_pm(spec, seed):
    """(Not used by gen: with -D the first failing test ends the run through EndRun and
    run_internal returns False - that is what upstream's own doctests testrunner-debugging*.rst
    document, so -D is not treated as an execution mode of C02.)"""
    rng = random.Random(seed ^ 0xD)
    if rng.random() < 0.07 and not spec['opt'].get('j') and \
            not any(e['site'] == 'channel' or e['a'] == 'die' for e in spec['plan']):
        spec['opt']['pm'] = True
        spec['opt'].pop('buffer', None)
        # (no resumed children: they cannot be debugged)
        # (nor import failures: with -D discovery itself enters the debugger and EndRun leaves
        # run_internal as an exception - a non-zero exit, but no verdict to compare)
        spec['plan'] = [e for e in spec['plan'] if e.get('exc') != 'NotImplementedError'
                        and not e['site'].startswith('module.')]
    return spec


def directed(tier, base_seed):
    from .. import stubval
    for spec in stubval.specs(gen, base_seed, 60 if tier == 'thorough' else 6):
        yield spec


def has_child_faults(spec):
    return any(e['a'] in ('die',) or e['site'] == 'channel' for e in spec['plan'])


def run(spec, ctx):
    if spec.get('stubval'):
        from .. import stubval
        return stubval.run(spec, ctx, ID)
    src = W.materialise(spec['world'], ctx.scratch)
    m = W.Model(spec['world'])
    res = core.execute(spec, W.argv(spec['opt'], src))
    T = TR.Truth(m, res.trace)
    viols = _ws.oracle_verdict(m, spec, res, T)
    results = [res]
    if c12.comparable(spec) and not has_child_faults(spec) and not res.raised and not res.hang \
            and not spec['opt'].get('pm'):
        spec2 = copy.deepcopy(spec)
        spec2['opt'] = c12.other_mode(spec['opt'])
        res2 = core.execute(spec2, W.argv(spec2['opt'], src), label='other-mode')
        T2 = TR.Truth(m, res2.trace)
        viols += _ws.oracle_verdict(m, spec2, res2, T2)
        results.append(res2)
        if not res2.raised and not res2.hang and bool(res.verdict) != bool(res2.verdict):
            viols.append(C.viol('C02/modes-disagree', 'verdict %r with %r but %r with %r'
                                % (res.verdict, spec['opt'], res2.verdict, spec2['opt'])))
    died = sum(1 for c in res.children if c['died'])
    return _ws.std_out(spec, ctx, results, viols,
                       {'children_died': died,
                        'children_report_incomplete':
                            sum(1 for c in res.children if not c['report_complete'])})
