"""C12 - reported counts and failure lists equal what actually happened."""
import copy

from .. import common as C
from .. import core
from .. import truth as TR
from .. import world as W
from . import _ws

ID = 'C12'
TIERS = {'quick': {'seeds': 6000, 'seconds': 45, 'determinism': 32},
         'thorough': {'seconds': 900, 'determinism': 256, 'minimise_s': 120}}
RULE = ('seeded worlds with every outcome kind (several events per test, failing subtests, '
        'unexpected successes, skips, layer setUp/tearDown failures, import failures), -v 0..3, '
        '--repeat; each spec is executed in its own mode and in the opposite mode (sequential <-> '
        '-j N; layers resumed after a NotImplementedError tearDown). Printed per-layer summaries, '
        'Total line and the failure/error name lists are compared with the trace ground truth and '
        'between modes. distinct = digest of hook-site sequences + faults + completion order; '
        'non-trivial = a fault fired or children ran')
RULE += (' ' + 'Later additions: test objects with countTestCases() of 2-4 (counted as such, the anchored testsRun adjustment).')
BIAS = dict(p_weird_ids=0.15, p_multicount=0.08, n_test_faults=[0, 1, 2, 3, 4],
            n_layer_faults=[0, 0, 1, 2], p_import_fault=0.1,
            p_buffer=0.15, p_j=0.35, p_repeat=0.25, p_shuffle=0.15, v=[0, 1, 2, 3], p_occ=0.2,
            profile=dict(p_doctest=0.2, p_subtests=0.2, p_deco_xfail=0.12, p_deco_skip=0.1))


def gen(seed):
    spec = _ws.gen_ws(seed, ID, BIAS)
    if seed % 9 == 1:
        _ws.add_binary_stdout_in_resumed_layers(spec, seed)
    if seed % 11 == 5 and not spec['opt'].get('j'):
        # ^C while a layer is half run (in the parent): either the run ends with the exception
        # and claims nothing, or what it prints is what happened
        import random
        from .. import common as C
        srng = random.Random(seed ^ 0xCB1)
        disc = [d for d in W.Model(spec['world']).discover() if C.test_phases(d)]
        if disc:
            d = srng.choice(disc)
            spec['plan'].append(C.fault_entry(d, srng.choice(C.test_phases(d)),
                                              {'a': 'raise', 'exc': 'KeyboardInterrupt',
                                               'where': 'parent'}))
    if seed % 8 == 3:
        # a test writes a line to the REAL stderr (fd 2: a C library, a helper process) that
        # begins like the header of a child's report but is none: totals and lists must not
        # depend on it, in no mode
        import random
        from .. import common as C
        srng = random.Random(seed ^ 0x5E8)
        disc = [d for d in W.Model(spec['world']).discover() if C.test_phases(d)]
        if disc:
            d = srng.choice(disc)
            spec['plan'].insert(0, C.fault_entry(d, srng.choice(C.test_phases(d)), {
                'a': 'write', 'stream': 'realstderr',
                'text': srng.choice(['1 2 3 4 5\n', '3 2 1 0 liftoff\n', '1 2 3 4x\n',
                                     '2026 09 30 12:00:01 starting\n', '0 0 0 0 0\n'])}))
    return spec


def comparable(spec):
    """Fault plans whose effect does not depend on which process runs a layer."""
    # layer hooks run once per process that needs the layer, so their failures are counted
    # per process: only plans without layer-hook failures have mode-independent totals
    for e in spec['plan']:
        if e.get('where') in ('child', 'parent') and e['a'] == 'raise' and \
                e.get('exc') != 'NotImplementedError':
            return False      # a fault that exists in one kind of process only
        if e['site'].startswith('layer.') and e.get('exc') != 'NotImplementedError':
            return False
        if e['site'].startswith('layer.') and e.get('occ') is not None:
            return False
    return True


def other_mode(opt):
    o = dict(opt)
    if o.get('j'):
        del o['j']
    else:
        o['j'] = 2
    return o


def totals(res):
    r = res.runner or {}
    return (r.get('ran'), len(r.get('failures', [])), len(r.get('errors', [])))


def run(spec, ctx):
    src = W.materialise(spec['world'], ctx.scratch)
    m = W.Model(spec['world'])
    res = core.execute(spec, W.argv(spec['opt'], src))
    T = TR.Truth(m, res.trace)
    viols = _ws.oracle_counts(m, spec, res, T)
    results = [res]
    if comparable(spec) and not res.raised and not res.hang:
        spec2 = copy.deepcopy(spec)
        spec2['opt'] = other_mode(spec['opt'])
        res2 = core.execute(spec2, W.argv(spec2['opt'], src), label='other-mode')
        T2 = TR.Truth(m, res2.trace)
        viols += _ws.oracle_counts(m, spec2, res2, T2)
        results.append(res2)
        if not res2.raised and not res2.hang and totals(res) != totals(res2):
            viols.append(C.viol('C12/modes-disagree',
                                'totals (ran, failures, errors) %r with %r but %r with %r'
                                % (totals(res), spec['opt'], totals(res2), spec2['opt'])))
        mt1 = C.TOTAL_RE.findall(res.text)
        mt2 = C.TOTAL_RE.findall(res2.text)
        if mt1 and mt2 and mt1[-1][3] != mt2[-1][3]:
            viols.append(C.viol('C12/modes-disagree/skipped',
                                'Total line skipped count %s with %r but %s with %r'
                                % (mt1[-1][3], spec['opt'], mt2[-1][3], spec2['opt'])))
    return _ws.std_out(spec, ctx, results, viols)
