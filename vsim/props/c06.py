"""C06 - -j N runs equal sequential runs; output ordered per layer; at most N alive."""
import copy
import itertools
import random
import re

from .. import common as C
from .. import core
from .. import truth as TR
from .. import world as W
from . import _ws

ID = 'C06'
TIERS = {'quick': {'seeds': 4500, 'seconds': 45, 'determinism': 32},
         'thorough': {'seconds': 900, 'determinism': 256, 'minimise_s': 120}}
RULE = ('fault-free children; per spec a sequential baseline and a -j N run (N in 1..k+1) under '
        '(a) a seeded random interleaving of parent threads and child actors, (b) a forced '
        'completion order (directed: all k! priority permutations for k <= 3 quick / <= 4 thorough, '
        'x every N x deferred and keep-alive collectors), (c) record-by-record output interleaving, '
        '(d) stalls and a barrier schedule in which no child may exit before min(N,k) are alive. '
        'Oracles: same tests/outcomes/verdict/name lists as the baseline; the children\'s stdout '
        'tapes appear in the parent\'s output as contiguous blocks in baseline layer order; alive <= '
        'N at every spawn; barrier reached (progress). distinct = '
        'digest incl. completion order; non-trivial = two children overlapped')
RULE += (' ' + "Later additions: blocks must be contiguous in the RAW output; >1000-line blocks; a parent stdout whose flush yields/sleeps; CPU-count seam; the runner script started through a symbolic link; one seed in four runs the parent's threads under line-level pre-emption (every line of runner.py a scheduling point).")
KEEPALIVE_RE = re.compile(r'\[Parallel tests running in [^\n]*:\n  .*?\]\n', re.S)
DOTS_RE = re.compile(r'^\.+\n$')


def make_spec(seed, rng, k=None, mode=None, N=None, v=None):
    p = W.profile(min_layers=k or 2, max_layers=k or 5, p_unit=0.0 if k else 0.15,
                  max_modules=2, max_classes=4, max_tests=3, max_total_tests=14)
    while True:
        world = W.gen_world(rng, p)
        m = W.Model(world)
        sel = m.select({})
        if len(sel) >= 2 and (k is None or len(sel) == k):
            break
        # make every layer own a test so that k layers == k children
        if k is not None:
            have = {m.short(l) for l in sel}
            for L in world['layers']:
                if L['name'] not in have:
                    cls = world['modules'][0]['classes']
                    cls.append({'name': 'TX%s' % L['name'], 'layer': L['name'],
                                'tests': [{'name': 'test_a'}]})
                    if world['modules'][0].get('suite') is not None:
                        world['modules'][0]['suite'] = None
            m = W.Model(world)
            sel = m.select({})
            if len(sel) == k:
                break
    disc = m.discover()
    plan = C.gen_test_faults(rng, disc, rng.choice([0, 1, 2, 3]),
                             excs=['AssertionError', 'ValueError', 'SkipTest'], p_occ=0.0)
    nk = len(sel)
    opt = {'v': v if v is not None else rng.choice([0, 1, 2, 2, 3]),
           'j': N if N is not None else rng.randint(1, nk + 1)}
    if rng.random() < 0.15:
        opt['repeat'] = 2
    if rng.random() < 0.2:
        opt['shuffle_seed'] = rng.randint(0, 99)
        # order-dependent tests: b fails only when a ran before it in the same process, so a
        # child that orders its layer differently than the sequential run changes outcomes
        by_layer = {}
        for d in disc:
            if C.test_phases(d):
                by_layer.setdefault(d['layer'], []).append(d)
        for lay, ds in sorted(by_layer.items(), key=lambda kv: str(kv[0])):
            if len(ds) >= 2:
                for _ in range(rng.randint(1, 3)):
                    a, b = rng.sample(ds, 2)
                    plan.append(C.fault_entry(b, 'body', {'a': 'raise', 'exc': 'AssertionError',
                                                          'after': a['tid']}))
    sched = {'prng': seed}
    if mode is None:
        mode = rng.choice(['random', 'random', 'order', 'barrier', 'stall'])
    if mode == 'order':
        perm = list(range(nk))
        rng.shuffle(perm)
        sched['completion_order'] = perm
        if feasible(perm, opt['j']):
            sched['strict'] = True
    elif mode == 'barrier':
        sched['barrier'] = min(opt['j'], nk)
    elif mode == 'stall':
        for lf in sorted(sel):
            if rng.random() < 0.6:
                plan.append({'site': 'channel', 'ident': lf, 'a': 'stall',
                             'pos': rng.randint(0, 40), 'dt': rng.choice([0.005, 0.5, 20.0])})
    if opt['j'] == 1:
        # -j1 only has children when a layer cannot be torn down: that is the run that uses
        # the immediate collector (the baseline runs without this fault)
        cands = [L['name'] for L in world['layers'] if m.has_hook(L['name'], 'tearDown')]
        if cands:
            plan.append({'site': 'layer.tearDown', 'ident': rng.choice(cands), 'a': 'raise',
                         'exc': 'NotImplementedError', 'where': 'parent', 'nie': True})
    knobs = {'pipe_capacity': rng.choice([16, 64, 512, 65536])}
    if rng.random() < 0.3:
        knobs['defaults_split'] = rng.randint(0, 99)
    _ws.gen_relpath(rng, world, disc, opt, plan, 0.1)
    if rng.random() < 0.3:
        # tests that print, also lines that begin like the runner's own keep-alive dots
        cands = [d for d in disc if C.test_phases(d) and not d['t'].get('doctest')]
        for k in range(rng.randint(1, 3)):
            if cands:
                d = rng.choice(cands)
                plan.append(C.fault_entry(d, rng.choice(C.test_phases(d)), {
                    'a': 'write', 'stream': rng.choice(['stdout', 'print']),
                    'text': rng.choice(['..F. nested run %d\n' % k, './data/file%d\n' % k,
                                        '... done %d\n' % k, 'plain line %d\n' % k,
                                        '.hidden%d\n' % k,
                                        # a block of more than a thousand lines
                                        ''.join('row %d.%d\n' % (k, i) for i in range(1300))])}))
    r_ = rng.random()
    if r_ < 0.2:
        knobs['stdout_yields'] = True      # a slow parent stdout: flushes are scheduling points
    elif r_ < 0.4:
        knobs['stdout_stall'] = rng.choice([0.003, 0.05, 1.0])   # ... or block for a while
    if rng.random() < 0.25:
        knobs['cpus'] = rng.choice([1, 2])  # fewer CPUs than -j must not serialise the layers
    if seed % 7 == 3 and len(sel) >= 2:
        # one layer's subprocess cannot be started: the blocks of all the others still appear,
        # in order, and the others still run side by side (what the failed layer would have
        # run is of course missing: the comparison with the sequential run is not made)
        srng = random.Random(seed ^ 0xC06)
        plan.append({'site': 'channel', 'ident': srng.choice(sorted(sel)), 'a': 'spawn_fail',
                     'errno': srng.choice(['EAGAIN', 'ENOMEM']), 'exc': 'OSError'})
        sched.pop('strict', None)    # (a strict completion order waits for every child)
    if seed % 6 == 1:
        knobs['script_link'] = True     # the runner script was started through a symbolic link
    return {'property': ID, 'seed': seed, 'world': world, 'plan': _ws.order_plan(plan),
            'opt': opt, 'sched': sched, 'knobs': knobs, 'mode': mode}


def feasible(perm, N):
    """Can k children started in index order, at most N at a time, finish in this order?
    The child finishing at position t must have been started: its index < N + t."""
    return all(idx < N + t for t, idx in enumerate(perm))


def gen(seed):
    return make_spec(seed, random.Random(seed))


def directed(tier, base_seed):
    from .. import stubval
    for spec in stubval.specs(gen, base_seed, 60 if tier == 'thorough' else 6):
        yield spec
    kmax = 4 if tier == 'thorough' else 3
    nworlds = 6 if tier == 'thorough' else 2
    for wi in range(nworlds):
        for k in range(2, kmax + 1):
            seed = 900000 + base_seed * 1000 + wi * 10 + k
            base = make_spec(seed, random.Random(seed), k=k, mode='order', N=1, v=0)
            # (the enumeration of completion orders is for children that all start)
            base['plan'] = [e for e in base['plan'] if e['site'] != 'channel']
            for perm in itertools.permutations(range(k)):
                for N in range(1, k + 2):
                    for v in (0, 2):
                        spec = copy.deepcopy(base)
                        spec['opt']['j'] = N
                        spec['opt']['v'] = v
                        spec['sched'] = {'prng': seed, 'completion_order': list(perm)}
                        if feasible(perm, N):
                            spec['sched']['strict'] = True
                        yield spec


def child_stdout(tape):
    """What the child wrote to its stdout, minus keep-alive dot lines (as the collectors do)."""
    data = b''.join(p for t, p in tape if t == 'O')
    out = []
    for ln in data.decode('utf-8', 'replace').splitlines(True):
        if not DOTS_RE.match(ln):
            out.append(ln)
    return ''.join(out)


def outcome_map(T):
    out = {}
    for o in T.occs:
        out.setdefault(o['tid'], []).append((o['occ'], tuple(o['events'])))
    return {k: sorted(v) for k, v in out.items()}


def run(spec, ctx):
    if spec.get('stubval'):
        from .. import stubval
        return stubval.run(spec, ctx, ID)
    src = W.materialise(spec['world'], ctx.scratch)
    m = W.Model(spec['world'])
    opt = spec['opt']
    N = opt.get('j') or 1
    base_opt = {k: v for k, v in opt.items() if k != 'j'}
    if spec['sched'].get('strict') and any(e.get('a') == 'spawn_fail' for e in spec['plan']):
        # (a strict completion order waits for every child: not with a failed spawn)
        spec = dict(spec, sched={k: v for k, v in spec['sched'].items() if k != 'strict'})
    if spec['sched'].get('barrier'):
        # (a minimised or hand-written spec may ask for more children at the barrier than the
        # world has layers: that barrier could never open)
        nsel = len(m.select({})) - sum(1 for e in spec['plan'] if e.get('a') == 'spawn_fail')
        spec = dict(spec, sched=dict(spec['sched'],
                                     barrier=max(1, min(spec['sched']['barrier'], N, nsel))))
    spec0 = dict(spec, opt=base_opt, plan=[e for e in spec['plan']
                                           if e['site'] != 'channel' and not e.get('nie')])
    base = core.execute(spec0, W.argv(base_opt, src), sched_mode={'prng': 0}, label='baseline')
    par = core.execute(spec, W.argv(opt, src), label='parallel')
    T0 = TR.Truth(m, base.trace)
    T1 = TR.Truth(m, par.trace)
    viols = []
    coll = 'immediate' if N == 1 else ('keepalive' if opt.get('v', 0) > 1 else 'deferred')
    tag = '%s/%s' % (coll, spec.get('mode', 'random'))
    if par.hang:
        viols.append(C.viol('C06/hang/' + tag, par.hang[:400]))
    elif par.raised or base.raised:
        viols.append(C.viol('C06/run-aborted/%s' % _ws.frames_sig(par.raised or base.raised),
                            repr(par.raised or base.raised)))
    else:
        faulty = any(e['site'] == 'channel' for e in spec['plan'])
        if not faulty and outcome_map(T0) != outcome_map(T1):
            viols.append(C.viol('C06/tests-or-outcomes-differ',
                                'sequential %r vs -j%d %r' % (outcome_map(T0), N,
                                                              outcome_map(T1))))
        if not faulty and bool(base.verdict) != bool(par.verdict):
            viols.append(C.viol('C06/verdict-differs', '%r vs %r' % (base.verdict, par.verdict)))
        r0, r1 = base.runner, par.runner
        for key in ('failures', 'errors'):
            if not faulty and sorted(r0[key]) != sorted(r1[key]):
                viols.append(C.viol('C06/%s-list-differs' % key,
                                    'sequential %r vs -j%d %r' % (r0[key], N, r1[key])))
        if not faulty and r0['ran'] != r1['ran']:
            viols.append(C.viol('C06/ran-differs', '%r vs %r' % (r0['ran'], r1['ran'])))
        # blocks
        rawtext = ''.join(t for tag_, t in par.out if tag_ == 'O')
        ptext = KEEPALIVE_RE.sub('', rawtext)
        base_order = [x for x in C.RUNNING_RE.findall(base.text)]
        if par.children:
            if N == 1:
                # the immediate collector relays everything, dot lines included
                kids = {c['layer']: b''.join(p for t_, p in t if t_ == 'O').decode('utf-8',
                                                                                    'replace')
                        for c, t in zip(par.children, par.child_tapes)}
            else:
                kids = {c['layer']: child_stdout(t)
                        for c, t in zip(par.children, par.child_tapes)}
            order = [l for l in base_order if l in kids]
            if sorted(order) != sorted(kids):
                viols.append(C.viol('C06/children-vs-layers',
                                    'baseline layers %r, children %r' % (base_order,
                                                                         sorted(kids))))
            else:
                # every child's block must appear unmodified and contiguous, the blocks in
                # baseline order.  (Keep-alive markers may sit between two blocks; after a
                # block was printed the runner continues a marker segment of the same layer
                # without repeating its "[Parallel tests running in" header - cosmetic.)
                pos = 0
                ok = True
                for l in order:
                    i = ptext.find(kids[l], pos)
                    if i < 0:
                        ok = False
                        break
                    pos = i + len(kids[l])
                if ok:
                    # ... and contiguous in what was really printed: keep-alive text of other
                    # layers may stand between two blocks, never inside one
                    pos = 0
                    for l in order:
                        i = rawtext.find(kids[l], pos)
                        if i < 0:
                            viols.append(C.viol('C06/block-interrupted/' + tag,
                                                'the block of %s is interrupted by keep-alive '
                                                'output of other layers' % l))
                            break
                        pos = i + len(kids[l])
                if not ok:
                    got_order = [x for x in C.RUNNING_RE.findall(ptext) if x in kids]
                    if got_order != order:
                        viols.append(C.viol('C06/block-order/' + tag,
                                            'layer blocks printed as %r, sequential order is %r, '
                                            'children finished as %r'
                                            % (got_order, order, par.sched['exit_order'])))
                    else:
                        viols.append(C.viol('C06/block-not-contiguous/' + tag,
                                            'the children\'s output is not relayed as contiguous '
                                            'unmodified blocks; children finished as %r\n%s'
                                            % (par.sched['exit_order'], ptext[-1500:])))
        if par.invariant_violations:
            viols.append(C.viol('C06/more-than-N-alive', repr(par.invariant_violations)))
        nk = len(par.children)
        if N > 1 and spec['sched'].get('barrier') and par.sched['max_alive'] < min(N, nk):
            viols.append(C.viol('C06/less-than-N-in-parallel',
                                'max alive %d, N=%d, layers=%d' % (par.sched['max_alive'], N, nk)))
        if N > 1 and spec['sched'].get('completion_order') and nk:
            # the first-priority child cannot exit before all others that fit are spawned?
            pass
        # (how the parent disposes of finished children - kill/communicate/wait - is not part
        # of the statement: counted as a probe only)
        if par.sched['thread_excs']:
            viols.append(C.viol('C06/worker-thread-died', repr(par.sched['thread_excs'])))
    out = _ws.std_out(spec, ctx, [base, par], viols,
                      {'collector_' + coll: 1, 'mode_' + str(spec.get('mode')): 1,
                       'max_alive_%d' % par.sched['max_alive']: 1,
                       'children_reaped': sum(1 for a in par.actors if a['reaped']),
                       'backpressure_waits': sum(a['backpressure'] for a in par.actors)},
                      nontrivial=par.sched['max_alive'] >= 2)
    return out
