"""C10 - layer run order: deterministic, unit tests first, bases first, once each."""
import random
import unittest

from .. import common as C
from .. import core
from .. import simrt
from . import _ws

ID = 'C10'
HASHSEED_SENSITIVE = True
TIERS = {'quick': {'seeds': 8000, 'seconds': 45, 'determinism': 400},
         'thorough': {'seconds': 900, 'determinism': 4000, 'minimise_s': 120}}
RULE = ('generated layer DAGs (<= 6 nodes, class and instance layers, adversarial names: '
        'prefix-related, differently cased, sorting differently as tuples vs strings, several '
        'modules) with a random test-owning subset, fed through Runner(found_suites=...). The '
        'simulator owns the nondeterminism sources the statement names: each spec is executed '
        'under several permutations of discovery order, of layer-object creation order (object '
        'addresses) and of --layer option order, and again in a lane with another PYTHONHASHSEED. '
        'Oracle: identical sequence of "Running <layer> tests:" headers and --list-tests groups in '
        'all executions; unit layer first; no layer before a base that also owns tests; each layer '
        'once. distinct = digest of DAG shape + names + owners; non-trivial = >= 3 layers own '
        'tests. The all-DAGs/all-namings half of the quantifier is only sampled')
REAL_VS_STUB = {
    'real': 'Runner with found_suites, find_tests/tests_from_suite, Filter, ordered_layers, '
            'order_by_bases/layer_sort_key/gather_layers, run loop, Listing, OutputFormatter',
    'stub': 'no source tree (suites are built in memory); generated layers/tests',
}
NAMES = ['A', 'B', 'AA', 'A_', 'a', 'Z', 'B1', 'L10', 'L2', 'L1', 'Ab', 'AB']
MODS = ['wpkg.layers', 'wpkg.layerz', 'm', 'zz.top', 'Wpkg.layers']
UNIT = 'zope.testrunner.layer.UnitTests'


def gen(seed):
    rng = random.Random(seed)
    n = rng.randint(2, 7)
    names = rng.sample(NAMES, n)
    layers = []
    for i, nm in enumerate(names):
        kind = 'inst' if rng.random() < 0.3 else 'class'
        cands = [L['id'] for L in layers if kind == 'inst' or L['kind'] == 'class']
        r = rng.random()
        nb = 0 if r < 0.25 else (1 if r < 0.6 else (2 if r < 0.85 else 3))
        nb = min(nb, len(cands))
        bases = rng.sample(cands, nb)
        if kind == 'class' and len(bases) >= 2:
            bases = consistent(layers, bases)
        layers.append({'id': i, 'name': nm, 'module': rng.choice(MODS), 'kind': kind,
                       'bases': bases})
    full = ['%s.%s' % (L['module'], L['name']) for L in layers]
    if len(set(full)) != len(full):
        for i, L in enumerate(layers):
            L['name'] = '%s%d' % (L['name'], i)
    owners = [L['id'] for L in layers if rng.random() < 0.7]
    if len(owners) < 2:
        owners = [L['id'] for L in layers]
    unit = rng.random() < 0.5
    perms = []
    ids = owners + (['U'] if unit else [])
    for _ in range(4):
        o = list(ids)
        rng.shuffle(o)
        c = list(range(n))
        rng.shuffle(c)
        perms.append({'suites': o, 'create': c})
    opt = {}
    if rng.random() < 0.3:
        opt['layer_pats'] = ['.', 'layers', 'm', 'U', '[A-Z]'][:rng.randint(2, 4)]
    return {'property': ID, 'seed': seed, 'layers': layers, 'owners': owners, 'unit': unit,
            'perms': perms, 'opt': opt, 'world': {'layers': [], 'modules': []}, 'plan': [],
            'knobs': {}, 'sched': {'prng': seed}}


def consistent(layers, bases):
    """Subset of `bases` (order kept) that type() accepts; redundant bases stay when legal."""
    idx = {L['id']: L for L in layers}
    built = {}

    def cls(i):
        if i not in built:
            L = idx[i]
            bs = tuple(cls(b) for b in L['bases'] if idx[b]['kind'] == 'class')
            built[i] = type('X%d' % i, bs or (object,), {})
        return built[i]
    out = []
    for b in bases:
        try:
            type('_probe', tuple(cls(x) for x in out + [b]), {})
            out.append(b)
        except TypeError:
            continue
    return out


def closure(layers, i):
    idx = {L['id']: L for L in layers}
    out = set()

    def rec(k):
        if k in out:
            return
        out.add(k)
        for b in idx[k]['bases']:
            rec(b)
    rec(i)
    return out


def build(spec, perm):
    """Fresh layer objects (created in perm['create'] order as far as bases allow) and suites."""
    layers = spec['layers']
    idx = {L['id']: L for L in layers}
    objs = {}
    order = list(perm['create'])
    # create in the requested order, deferring a layer until its bases exist
    pending = list(order)
    junk = []
    while pending:
        for i in list(pending):
            L = idx[i]
            if all(b in objs for b in L['bases']):
                junk.append(object())       # perturb addresses
                bases = tuple(objs[b] for b in L['bases'])
                if L['kind'] == 'class':
                    o = type(L['name'], bases or (object,), {'__module__': L['module']})
                else:
                    o = simrt.InstLayer(L['name'], bases)
                    o.__module__ = L['module']
                objs[i] = o
                pending.remove(i)
    suites = []
    for k in perm['suites']:
        ns = {'__module__': 'wpkg.t', 'test_x': lambda self: None}
        if k == 'U':
            cls = type('TU', (unittest.TestCase,), ns)
        else:
            ns['layer'] = objs[k]
            cls = type('T%d' % k, (unittest.TestCase,), ns)
        suites.append(unittest.defaultTestLoader.loadTestsFromTestCase(cls))
    return suites


def run(spec, ctx):
    idx = {L['id']: L for L in spec['layers']}
    fullname = {i: '%s.%s' % (L['module'], L['name']) for i, L in idx.items()}
    seqs = []
    results = []
    viols = []
    pats = spec['opt'].get('layer_pats')
    for k, perm in enumerate(spec['perms']):
        for listing in (False, True):
            args = []
            if pats:
                pp = list(pats)
                random.Random(spec['seed'] + k).shuffle(pp)
                for p in pp:
                    args += ['--layer', p]
            if listing:
                args.append('--list-tests')
            suites = build(spec, perm)
            res = core.execute(spec, args, found_suites=suites, label='perm%d' % k)
            results.append(res)
            if res.raised or res.hang:
                viols.append(C.viol('C10/run-aborted/%s' % _ws.frames_sig(res.raised),
                                    repr(res.raised or res.hang)))
                continue
            if listing:
                seq = [l for l, _ in C.parse_listing(res.text)]
            else:
                seq = C.RUNNING_RE.findall(res.text)
            seqs.append((k, listing, seq))
    if not viols and seqs:
        ref = seqs[0][2]
        for k, listing, seq in seqs[1:]:
            if seq != ref:
                what = 'list-vs-run' if listing != seqs[0][1] and k == seqs[0][0] else \
                    'discovery-or-creation-order'
                viols.append(C.viol('C10/order-depends-on/' + what,
                                    'permutation %d (%s) gives %r, permutation 0 gives %r'
                                    % (k, 'list' if listing else 'run', seq, ref)))
                break
        # structural rules on the reference order
        names = {v: k for k, v in fullname.items()}
        if len(set(ref)) != len(ref):
            viols.append(C.viol('C10/layer-run-twice', repr(ref)))
        if spec['unit'] and UNIT in ref and ref[0] != UNIT:
            viols.append(C.viol('C10/unit-layer-not-first', repr(ref)))
        want = {fullname[i] for i in spec['owners']} | ({UNIT} if spec['unit'] else set())
        if not pats and set(ref) != want:
            viols.append(C.viol('C10/layers-missing-or-extra', 'ran %r, owners %r'
                                % (ref, sorted(want))))
        pos = {n: i for i, n in enumerate(ref)}
        for a in spec['owners']:
            for b in spec['owners']:
                if a != b and a in closure(spec['layers'], b):
                    na, nb = fullname[a], fullname[b]
                    if na in pos and nb in pos and pos[na] > pos[nb]:
                        viols.append(C.viol('C10/layer-before-its-base',
                                            '%s ran before its base %s: %r' % (nb, na, ref)))
    for r in results:
        r.trace = []
    out = _ws.std_out(spec, ctx, results, viols,
                      {'owning_layers': len(spec['owners']), 'permutations': len(spec['perms'])},
                      nontrivial=len(spec['owners']) >= 3)
    import hashlib
    import json
    out['shape'] = hashlib.sha256(json.dumps([spec['layers'], spec['owners'], spec['unit']])
                                  .encode()).hexdigest()[:16]
    return out
