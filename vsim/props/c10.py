"""C10 - layer run order: deterministic, unit tests first, bases first, once each."""
import random
import unittest

from .. import common as C
from .. import core
from .. import simrt
from . import _ws

ID = 'C10'
HASHSEED_SENSITIVE = True
TIERS = {'quick': {'seeds': 8000, 'seconds': 40, 'determinism': 200},
         'thorough': {'seconds': 900, 'determinism': 4000, 'minimise_s': 120}}
RULE = ('generated layer DAGs (<= 6 nodes, class and instance layers, adversarial names: '
        'prefix-related, differently cased, sorting differently as tuples vs strings, several '
        'modules) with a random test-owning subset, fed through Runner(found_suites=...). The '
        'simulator owns the nondeterminism sources the statement names: each spec is executed '
        'under several permutations of discovery order, of layer-object creation order (object '
        'addresses) and of --layer option order, and again in a lane with another PYTHONHASHSEED. '
        'Oracle: identical sequence of "Running <layer> tests:" headers and --list-tests groups in '
        'all executions; unit layer first; no layer before a base that also owns tests; each layer '
        'once. One spec in five is a generated source tree run sequentially, listed and with -j N '
        'layer children (header sequence of the relayed output: same order, each layer once). distinct = digest of DAG shape + names + owners; non-trivial = >= 3 layers own '
        'tests. The all-DAGs/all-namings half of the quantifier is only sampled')
RULE += (' World specs also with a child that dies silently inside its layer and with a worker thread that cannot be started (each layer still at most once, in order).')
RULE += (' ' + 'Later additions: world specs with children whose report never arrives (their output must stay in place).')
REAL_VS_STUB = {
    'real': 'Runner with found_suites, find_tests/tests_from_suite, Filter, ordered_layers, '
            'order_by_bases/layer_sort_key/gather_layers, run loop, Listing, OutputFormatter',
    'stub': 'no source tree (suites are built in memory); generated layers/tests',
}
NAMES = ['A', 'B', 'AA', 'A_', 'a', 'Z', 'B1', 'L10', 'L2', 'L1', 'Ab', 'AB']
MODS = ['wpkg.layers', 'wpkg.layerz', 'm', 'zz.top', 'Wpkg.layers']
UNIT = 'zope.testrunner.layer.UnitTests'


def gen_world_spec(seed, rng):
    """A generated source tree (worlds of the shared generator) run sequentially, listed, and with
    layer children: the order and the once-and-contiguous rule must also hold when every layer
    runs in its own process and the parent relays the output."""
    from .. import world as W
    p = W.profile(min_layers=2, max_layers=6, p_unit=0.2, max_modules=2, max_classes=4,
                  max_tests=2, max_total_tests=10, p_prefix_names=0.3, p_punct_names=0.3)
    world = W.gen_world(rng, p)
    opt = {'v': rng.choice([0, 1, 2])}
    if rng.random() < 0.2:
        opt['shuffle_seed'] = rng.randint(0, 99)
    plan = []
    modes = [{}, {'list': True}, {'j': rng.randint(2, 4)}]
    if rng.random() < 0.3:
        # a layer that cannot be torn down (the rest is resumed in children), also together
        # with -D, which is only meaningful in the parent
        m = W.Model(world)
        cands = [L['name'] for L in world['layers'] if m.has_hook(L['name'], 'tearDown')]
        if cands:
            plan.append({'site': 'layer.tearDown', 'ident': rng.choice(cands), 'a': 'raise',
                         'exc': 'NotImplementedError', 'where': 'parent'})
            modes.append({'j': rng.randint(2, 3), 'pm': True})
            modes.append({'pm': True})
    if seed % 3 == 1:
        # a child whose report never arrives (its stdout does): what the parent says about that
        # must not change where the layer's output appears
        srng = random.Random(seed ^ 0xC10)
        m = W.Model(world)
        for lf in srng.sample(sorted(m.select({})), min(2, len(m.select({})))):
            if srng.random() < 0.7:
                plan.append({'site': 'channel', 'ident': lf, 'a': 'truncate_report',
                             'at': srng.choice([0, 0, 3, 12])})
    knobs = {'pipe_capacity': rng.choice([64, 4096, 65536])}
    if seed % 7 == 2:
        # a child that dies silently somewhere in its layer (killed, os._exit): whatever the
        # parent does about it, no layer is run twice and nothing runs out of order
        srng = random.Random(seed ^ 0xD1E)
        m = W.Model(world)
        hooks = [(s_, L['name']) for L in world['layers'] for s_ in ('setUp', 'tearDown')
                 if m.has_hook(L['name'], s_)]
        if hooks:
            h, name = srng.choice(hooks)
            plan.append({'site': 'layer.' + h, 'ident': name, 'a': 'die',
                         'how': srng.choice(['kill', 'exit0', 'exit3']), 'where': 'child'})
    if seed % 7 == 5:
        # the worker thread of one layer cannot be started (out of threads): the run may die of
        # it, but no layer may overtake another one because of it
        knobs['main_thread_start_fail'] = 1 + (seed // 7) % 4
        if (seed // 7) % 2:
            # ... in a sequential run whose first layer cannot be torn down: all the others are
            # resumed one after the other, in order
            m = W.Model(world)
            plan[:] = [e for e in plan if e.get('exc') != 'NotImplementedError']
            for L in world['layers']:
                if m.has_hook(L['name'], 'tearDown'):
                    plan.append({'site': 'layer.tearDown', 'ident': L['name'], 'a': 'raise',
                                 'exc': 'NotImplementedError', 'where': 'parent'})
    return {'property': ID, 'seed': seed, 'kind': 'world', 'world': world, 'plan': plan,
            'opt': opt, 'modes': modes, 'knobs': knobs, 'sched': {'prng': seed}}


def run_world(spec, ctx):
    from .. import truth as TR
    from .. import world as W
    src = W.materialise(spec['world'], ctx.scratch)
    m = W.Model(spec['world'])
    seqs = []
    results = []
    viols = []
    for mode in spec['modes']:
        opt = dict(spec['opt'], **mode)
        res = core.execute(spec, W.argv(opt, src), label=repr(sorted(mode)))
        results.append(res)
        if res.raised and 'main_thread_start_fail' in res.fired:
            continue       # (the run died of the injected fault: nothing ran out of order)
        if res.raised or res.hang:
            viols.append(C.viol('C10/run-aborted/%s' % _ws.frames_sig(res.raised),
                                repr(res.raised or res.hang)))
            continue
        spawned = [c.get('layer') for c in res.children]
        if len(set(spawned)) != len(spawned):
            # (a second start is not always visible in the headers: the output of a child that
            # died may end in the middle of a line)
            viols.append(C.viol('C10/layer-run-twice/child-started-twice',
                                'children were started for %r' % (spawned,)))
        if mode.get('list'):
            seq = [l for l, _ in C.parse_listing(res.text) if not l.endswith('.EmptyLayer')]
        else:
            seq = [l for l in C.RUNNING_RE.findall(res.text) if not l.endswith('.EmptyLayer')]
        seqs.append((mode, seq))
    if not viols and seqs:
        ref = seqs[0][1]
        for mode, seq in seqs:
            tag = 'children' if mode.get('j') else ('list' if mode.get('list') else 'sequential')
            lossy = any(e['a'] == 'die' for e in spec['plan']) or \
                bool(spec['knobs'].get('main_thread_start_fail'))
            if len(set(seq)) != len(seq):
                viols.append(C.viol('C10/layer-run-twice/' + tag, repr(seq)))
            elif lossy and tag == 'children':
                # a layer whose child died before its header (or never started) may be missing
                # here; what is there is in order
                it = iter(ref)
                if not all(x in it for x in seq):
                    viols.append(C.viol('C10/order-depends-on/mode-children-after-fault',
                                        'children give %r, sequential gives %r' % (seq, ref)))
            elif seq != ref:
                viols.append(C.viol('C10/order-depends-on/mode-' + tag,
                                    '%s gives %r, sequential gives %r' % (tag, seq, ref)))
        if UNIT in ref and ref[0] != UNIT:
            viols.append(C.viol('C10/unit-layer-not-first', repr(ref)))
        pos = {n: i for i, n in enumerate(ref)}
        for a in pos:
            for b in pos:
                if a != b and UNIT not in (a, b) and m.is_base(m.short(a), m.short(b)) \
                        and pos[a] > pos[b]:
                    viols.append(C.viol('C10/layer-before-its-base',
                                        '%s ran before its base %s: %r' % (b, a, ref)))
        want = set(m.select({}))
        lossy0 = any(e['a'] == 'die' for e in spec['plan']) or \
            bool(spec['knobs'].get('main_thread_start_fail'))
        if (not set(ref) <= want) if lossy0 else (set(ref) != want):
            viols.append(C.viol('C10/layers-missing-or-extra', 'ran %r, owners %r'
                                % (ref, sorted(want))))
    for r in results:
        r.trace = []
    return _ws.std_out(spec, ctx, results, viols, {'world_specs': 1},
                       nontrivial=len(seqs and seqs[0][1]) >= 3)


def gen(seed):
    rng = random.Random(seed)
    if rng.random() < 0.2:
        return gen_world_spec(seed, rng)
    n = rng.randint(2, 7)
    names = rng.sample(NAMES, n)
    layers = []
    for i, nm in enumerate(names):
        kind = 'inst' if rng.random() < 0.3 else 'class'
        cands = [L['id'] for L in layers if kind == 'inst' or L['kind'] == 'class']
        r = rng.random()
        nb = 0 if r < 0.25 else (1 if r < 0.6 else (2 if r < 0.85 else 3))
        nb = min(nb, len(cands))
        bases = rng.sample(cands, nb)
        if kind == 'class' and len(bases) >= 2:
            bases = consistent(layers, bases)
        layers.append({'id': i, 'name': nm, 'module': rng.choice(MODS), 'kind': kind,
                       'bases': bases})
    if rng.random() < 0.2:
        # class layers deriving from the unit-test layer itself ("quick" layers): ordinary
        # layers as far as the order goes
        for L in layers:
            if L['kind'] == 'class' and not L['bases'] and rng.random() < 0.6:
                L['unit_base'] = True
        # (only if every class layer still has a consistent MRO with the extra base)
        U = type('U', (object,), {})
        built = {}
        try:
            for L in layers:
                if L['kind'] == 'class':
                    bs = tuple(built[b] for b in L['bases'] if b in built)
                    if L.get('unit_base'):
                        bs = (U,)
                    built[L['id']] = type('X%d' % L['id'], bs or (object,), {})
        except TypeError:
            for L in layers:
                L.pop('unit_base', None)
    full = ['%s.%s' % (L['module'], L['name']) for L in layers]
    if len(set(full)) != len(full):
        for i, L in enumerate(layers):
            L['name'] = '%s%d' % (L['name'], i)
    owners = [L['id'] for L in layers if rng.random() < 0.7]
    if len(owners) < 2:
        owners = [L['id'] for L in layers]
    unit = rng.random() < 0.5
    perms = []
    ids = owners + (['U'] if unit else [])
    for _ in range(4):
        o = list(ids)
        rng.shuffle(o)
        c = list(range(n))
        rng.shuffle(c)
        perms.append({'suites': o, 'create': c})
    opt = {}
    if rng.random() < 0.3:
        opt['layer_pats'] = ['.', 'layers', 'm', 'U', '[A-Z]'][:rng.randint(2, 4)]
    return {'property': ID, 'seed': seed, 'layers': layers, 'owners': owners, 'unit': unit,
            'perms': perms, 'opt': opt, 'world': {'layers': [], 'modules': []}, 'plan': [],
            'knobs': {}, 'sched': {'prng': seed}}


def consistent(layers, bases):
    """Subset of `bases` (order kept) that type() accepts; redundant bases stay when legal."""
    idx = {L['id']: L for L in layers}
    built = {}

    def cls(i):
        if i not in built:
            L = idx[i]
            bs = tuple(cls(b) for b in L['bases'] if idx[b]['kind'] == 'class')
            built[i] = type('X%d' % i, bs or (object,), {})
        return built[i]
    out = []
    for b in bases:
        try:
            type('_probe', tuple(cls(x) for x in out + [b]), {})
            out.append(b)
        except TypeError:
            continue
    return out


def closure(layers, i):
    idx = {L['id']: L for L in layers}
    out = set()

    def rec(k):
        if k in out:
            return
        out.add(k)
        for b in idx[k]['bases']:
            rec(b)
    rec(i)
    return out


def build(spec, perm):
    """Fresh layer objects (created in perm['create'] order as far as bases allow) and suites."""
    layers = spec['layers']
    idx = {L['id']: L for L in layers}
    objs = {}
    order = list(perm['create'])
    # create in the requested order, deferring a layer until its bases exist
    pending = list(order)
    junk = []
    while pending:
        for i in list(pending):
            L = idx[i]
            if all(b in objs for b in L['bases']):
                junk.append(object())       # perturb addresses
                bases = tuple(objs[b] for b in L['bases'])
                if L.get('unit_base'):
                    import sys
                    bases = (sys.modules['zope.testrunner.layer'].UnitTests,)
                if L['kind'] == 'class':
                    o = type(L['name'], bases or (object,), {'__module__': L['module']})
                else:
                    o = simrt.InstLayer(L['name'], bases)
                    o.__module__ = L['module']
                objs[i] = o
                pending.remove(i)
    suites = []
    for k in perm['suites']:
        ns = {'__module__': 'wpkg.t', 'test_x': lambda self: None}
        if k == 'U':
            cls = type('TU', (unittest.TestCase,), ns)
        else:
            ns['layer'] = objs[k]
            cls = type('T%d' % k, (unittest.TestCase,), ns)
        suites.append(unittest.defaultTestLoader.loadTestsFromTestCase(cls))
    return suites


def run(spec, ctx):
    if spec.get('kind') == 'world':
        return run_world(spec, ctx)
    idx = {L['id']: L for L in spec['layers']}
    fullname = {i: '%s.%s' % (L['module'], L['name']) for i, L in idx.items()}
    seqs = []
    results = []
    viols = []
    pats = spec['opt'].get('layer_pats')
    for k, perm in enumerate(spec['perms']):
        for listing in (False, True):
            args = []
            if pats:
                pp = list(pats)
                random.Random(spec['seed'] + k).shuffle(pp)
                for p in pp:
                    args += ['--layer', p]
            if listing:
                args.append('--list-tests')
            core.prepare()      # (the layers refer to the runner's UnitTests class)
            suites = build(spec, perm)
            res = core.execute(spec, args, found_suites=suites, label='perm%d' % k)
            results.append(res)
            if res.raised or res.hang:
                viols.append(C.viol('C10/run-aborted/%s' % _ws.frames_sig(res.raised),
                                    repr(res.raised or res.hang)))
                continue
            if listing:
                seq = [l for l, _ in C.parse_listing(res.text)]
            else:
                seq = C.RUNNING_RE.findall(res.text)
            seqs.append((k, listing, seq))
    if not viols and seqs:
        ref = seqs[0][2]
        for k, listing, seq in seqs[1:]:
            if seq != ref:
                what = 'list-vs-run' if listing != seqs[0][1] and k == seqs[0][0] else \
                    'discovery-or-creation-order'
                viols.append(C.viol('C10/order-depends-on/' + what,
                                    'permutation %d (%s) gives %r, permutation 0 gives %r'
                                    % (k, 'list' if listing else 'run', seq, ref)))
                break
        # structural rules on the reference order
        names = {v: k for k, v in fullname.items()}
        if len(set(ref)) != len(ref):
            viols.append(C.viol('C10/layer-run-twice', repr(ref)))
        if spec['unit'] and UNIT in ref and ref[0] != UNIT:
            viols.append(C.viol('C10/unit-layer-not-first', repr(ref)))
        want = {fullname[i] for i in spec['owners']} | ({UNIT} if spec['unit'] else set())
        if not pats and set(ref) != want:
            viols.append(C.viol('C10/layers-missing-or-extra', 'ran %r, owners %r'
                                % (ref, sorted(want))))
        pos = {n: i for i, n in enumerate(ref)}
        for a in spec['owners']:
            for b in spec['owners']:
                if a != b and a in closure(spec['layers'], b):
                    na, nb = fullname[a], fullname[b]
                    if na in pos and nb in pos and pos[na] > pos[nb]:
                        viols.append(C.viol('C10/layer-before-its-base',
                                            '%s ran before its base %s: %r' % (nb, na, ref)))
    for r in results:
        r.trace = []
    out = _ws.std_out(spec, ctx, results, viols,
                      {'owning_layers': len(spec['owners']), 'permutations': len(spec['perms'])},
                      nontrivial=len(spec['owners']) >= 3)
    import hashlib
    import json
    out['shape'] = hashlib.sha256(json.dumps([spec['layers'], spec['owners'], spec['unit']])
                                  .encode()).hexdigest()[:16]
    return out
