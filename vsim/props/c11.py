"""C11 - shuffle is a seed-determined permutation inside each layer."""
import random
import re

from .. import common as C
from .. import core
from .. import truth as TR
from .. import world as W
from .. import xpy
from . import _ws

ID = 'C11'
TIERS = {'quick': {'seeds': 3000, 'seconds': 45, 'determinism': 32},
         'thorough': {'seconds': 900, 'determinism': 256, 'minimise_s': 120}}
RULE = ('fault-free worlds (0/1/many tests per layer); seeds from {0, negative, huge, random, '
        'ABSENT}; simulated clocks with parent/child skew up to +-1 h (the default seed is read '
        'from the clock); every spec runs unshuffled, shuffled sequentially (twice), as '
        '--list-tests, with -j N under a seeded schedule, with a --layer subset, and finally again '
        'with --shuffle-seed <the seed the first run reported>. Oracle: per layer a permutation of '
        'the unshuffled order, nothing crosses layers; identical order in every mode and every '
        'child; the reported seed reproduces the order of every process of the original run. '
        'distinct = digest of hook sequences + option keys; non-trivial = a layer with >= 2 tests '
        'was shuffled')
RULE += (' ' + 'Later additions: test objects with countTestCases() != 1; foreign draws from the module-level random generator between the lines of shuffle.py.')
SEED_RE = re.compile(r'Tests were shuffled using seed number (-?\d+)\.')
RULE += (' Cross-version tier (directed specs): with the reported seed the same world runs as REAL '
         'processes (sequentially, as --list-tests and with -j 2) under every other supported CPython '
         'found on the machine (3.9, 3.10, 3.11, 3.13); per layer the order must equal the order of '
         'the simulated run on 3.12.')
ASSUMPTIONS = ['"on every supported Python version": the simulator itself runs on CPython 3.12.1; the '
               'other supported versions (3.9, 3.10, 3.11, 3.13) are covered by the directed '
               'cross-version specs only, as real processes borrowing the pure-Python dependencies '
               'of the 3.12 environment; PyPy is not available']


_NEW_STR = re.compile(r'^(\w+) \((.*)\.\1\)$')


def _one_spelling(sid):
    return _NEW_STR.sub(r'\1 (\2)', sid)


def directed(tier, base_seed):
    out = []
    n = 10 if tier == 'quick' else 200
    for k in range(n):
        spec = gen(6600000 + base_seed * 1013 + k)
        spec['xpy'] = True
        out.append(spec)
    return out


def gen(seed):
    rng = random.Random(seed)
    p = W.profile(max_layers=4, max_tests=6, max_classes=3, max_total_tests=18, p_unit=0.25,
                  p_deco_skip=0.05, p_deco_xfail=0.0, p_subtests=0.0, p_suite_tree=0.3)
    world = W.gen_world(rng, p)
    r = rng.random()
    if r < 0.3:
        sseed = None
    else:
        sseed = rng.choice([0, 1, -5, 2 ** 40 + 17, rng.randint(0, 10 ** 6),
                            rng.randint(0, 10 ** 6)])
    opt = {'v': rng.choice([0, 1, 2])}
    if sseed is None:
        opt['shuffle'] = True
    else:
        opt['shuffle_seed'] = sseed
    if rng.random() < 0.2:
        opt['repeat'] = 2
    if rng.random() < 0.15:
        # deprecated positional filters behind a '--': whatever the runner adds to the command
        # line of its children must not end up among them
        opt['positional'] = [rng.choice(['.', 'tests', 'test_m'])]
        if rng.random() < 0.4:
            opt['positional'].append(rng.choice(['test_', '.']))
        opt['dashdash'] = rng.random() < 0.7
    skew = [rng.choice([0.0, 0.37, -3600.0, 3600.0, 12.5, -0.004]) for _ in range(4)]
    plan = []
    m = W.Model(world)
    if rng.random() < 0.2:
        cands = [L['name'] for L in world['layers'] if m.has_hook(L['name'], 'tearDown')]
        if cands:
            plan.append({'site': 'layer.tearDown', 'ident': rng.choice(cands), 'a': 'raise',
                         'exc': 'NotImplementedError'})
    sub = None
    if world['layers'] and rng.random() < 0.6:
        sub = [rng.choice(world['layers'])['name'] + '$']
    knobs = {**({'defaults_split': rng.randint(0, 99)} if rng.random() < 0.3 else {}),
             'child_skew': skew, 'clock_base': 1.7e9 + rng.random() * 1e6}
    j = rng.randint(2, 4)
    if seed % 10 == 7:
        # a test object that stands for several test cases: the shuffle draws must not depend on
        # countTestCases() of layers a process does not run
        srng = random.Random(seed ^ 0xC11)
        cs = [c for m_ in world['modules'] for c in m_['classes']]
        for _ in range(srng.randint(1, 2)):
            srng.choice(srng.choice(cs)['tests'])['count'] = srng.randint(2, 5)
    if seed % 10 == 3:
        # other code of the process draws from the module-level `random` generator while the
        # runner shuffles (a thread started by a test module at import): the order must depend
        # on the seed alone
        knobs['global_random_noise'] = True
    return {'property': ID, 'seed': seed, 'world': world, 'plan': plan, 'opt': opt,
            'sched': {'prng': seed}, 'knobs': knobs, 'j': j, 'layer_subset': sub}


def orders(m, T):
    """{layer full name: {pid: [tid...]}} for the first iteration."""
    out = {}
    for o in T.occs:
        if o['occ'] == 0:
            out.setdefault(m.full(o['layer']), {}).setdefault(o['pid'], []).append(o['tid'])
    return out


def flat(ords):
    """{layer: order} requiring one pid per layer."""
    out = {}
    for l, by in ords.items():
        out[l] = [t for pid in sorted(by) for t in by[pid]]
    return out


def argv_fix(opt, src):
    a = W.argv(opt, src)
    # negative seeds must be passed as --shuffle-seed=-5
    out = []
    skip = False
    for i, x in enumerate(a):
        if skip:
            skip = False
            continue
        if x == '--shuffle-seed':
            out.append('--shuffle-seed=%s' % a[i + 1])
            skip = True
        else:
            out.append(x)
    return out


def run(spec, ctx):
    src = W.materialise(spec['world'], ctx.scratch)
    m = W.Model(spec['world'])
    opt = spec['opt']
    results = []
    viols = []
    seedmode = 'explicit-seed' if opt.get('shuffle_seed') is not None else 'clock-seed'

    def ex(o, label, sched=None):
        r = core.execute(dict(spec, opt=o), argv_fix(o, src), label=label, sched_mode=sched)
        results.append(r)
        return r, TR.Truth(m, r.trace)

    plain = {k: v for k, v in opt.items() if k not in ('shuffle', 'shuffle_seed')}
    base, Tb = ex(plain, 'unshuffled')
    shuf, Ts = ex(opt, 'shuffled')
    for r in (base, shuf):
        if r.raised or r.hang:
            viols.append(C.viol('C11/run-aborted/%s' % _ws.frames_sig(r.raised),
                                repr(r.raised or r.hang)))
            return _ws.std_out(spec, ctx, results, viols)
    ob, os_ = flat(orders(m, Tb)), flat(orders(m, Ts))
    if sorted(ob) != sorted(os_):
        viols.append(C.viol('C11/layers-differ', '%r vs %r' % (sorted(ob), sorted(os_))))
    for l in ob:
        if sorted(ob[l]) != sorted(os_.get(l, [])):
            viols.append(C.viol('C11/not-a-permutation-within-layer',
                                'layer %s: unshuffled %r shuffled %r' % (l, ob[l], os_.get(l))))
            break
    mm = SEED_RE.findall(shuf.text)
    if len(mm) < 1:
        viols.append(C.viol('C11/seed-not-reported', shuf.text[-300:]))
        return _ws.std_out(spec, ctx, results, viols)
    reported = int(mm[-1])
    if opt.get('shuffle_seed') is not None and reported != opt['shuffle_seed']:
        viols.append(C.viol('C11/reported-seed-differs', '%r vs %r' % (reported,
                                                                      opt['shuffle_seed'])))
    ropt = dict(plain, shuffle_seed=reported)
    # reproduce with the reported seed: sequential (or resumed)
    rep, Tr = ex(ropt, 'reproduce-sequential')
    if flat(orders(m, Tr)) != os_:
        viols.append(C.viol('C11/reported-seed-does-not-reproduce/%s/%s'
                            % ('resumed' if shuf.children else 'sequential', seedmode),
                            'original %r, with --shuffle-seed %d: %r'
                            % (os_, reported, flat(orders(m, Tr)))))
    # listing with the reported seed
    lst, _ = ex(dict(ropt, list=True), 'list')
    if not lst.raised:
        sid = {d['tid']: d['sid'] for d in m.discover()}
        groups = {l: t for l, t in C.parse_listing(lst.text) if l != '.EmptyLayer'}
        want = {l: [sid[t] for t in ts] for l, ts in os_.items()}
        if groups != want:
            viols.append(C.viol('C11/list-order-differs', 'listed %r, ran %r' % (groups, want)))
        # ... and the same listing asked for together with -j N
        lstj, _ = ex(dict(ropt, list=True, j=spec.get('j', 2)), 'list-j')
        if not lstj.raised:
            groupsj = {l: t for l, t in C.parse_listing(lstj.text) if l != '.EmptyLayer'}
            if groupsj != want:
                viols.append(C.viol('C11/list-order-differs/with-j',
                                    'listed with -j %r, ran %r' % (groupsj, want)))
    # -j N with the ORIGINAL options (clock seed: the children must use the parent's seed)
    jopt = dict(opt, j=spec.get('j', 2))
    par, Tp = ex(jopt, 'parallel')
    if not (par.raised or par.hang):
        mp = SEED_RE.findall(''.join(t for tag, t in par.out))
        if mp:
            preported = int(mp[-1])
            pr, Tpr = ex(dict(plain, shuffle_seed=preported), 'reproduce-parallel-seed')
            if flat(orders(m, Tpr)) != flat(orders(m, Tp)):
                viols.append(C.viol('C11/reported-seed-does-not-reproduce/parallel/' + seedmode,
                                    '-j%d run (reported seed %d) ran %r; --shuffle-seed %d runs '
                                    '%r' % (jopt['j'], preported, flat(orders(m, Tp)), preported,
                                            flat(orders(m, Tpr)))))
        else:
            viols.append(C.viol('C11/seed-not-reported/parallel', par.text[-300:]))
        if opt.get('shuffle_seed') is not None and flat(orders(m, Tp)) != os_:
            viols.append(C.viol('C11/modes-disagree/parallel',
                                'sequential %r, -j%d %r' % (os_, jopt['j'],
                                                            flat(orders(m, Tp)))))
    # --layer subset
    if spec.get('layer_subset'):
        lopt = dict(ropt, layer=spec['layer_subset'])
        sub, Tsub = ex(lopt, 'layer-subset')
        want_layers = set(m.select(lopt))
        ran_layers = set(flat(orders(m, Tsub)))
        if not (sub.raised or sub.hang) and ran_layers - want_layers:
            viols.append(C.viol('C11/tests-of-unselected-layer-ran',
                                'with --layer %r the layers %r ran, selected are %r'
                                % (spec['layer_subset'], sorted(ran_layers),
                                   sorted(want_layers))))
        for l, order in flat(orders(m, Tsub)).items():
            if os_.get(l) != order:
                viols.append(C.viol('C11/layer-filter-changes-order',
                                    'layer %s: %r with --layer %r, %r without'
                                    % (l, order, spec['layer_subset'], os_.get(l))))
                break
    # a later run of the same process that selects fewer tests: exactly those run, each in the
    # order the seed gives it
    topt = dict(ropt, t=['TC0'])
    tsub, Tt = ex(topt, 'test-filter')
    if not (tsub.raised or tsub.hang):
        want_t = {l: sorted(d['tid'] for d in ds) for l, ds in m.select(topt).items()}
        got_t = {l: sorted(o) for l, o in flat(orders(m, Tt)).items()}
        if got_t != want_t:
            viols.append(C.viol('C11/shuffled-run-executes-other-tests',
                                'with -t TC0: ran %r, selected %r' % (got_t, want_t)))
    xprobes = {}
    if spec.get('xpy') and not lst.raised:
        sid = {d['tid']: d['sid'] for d in m.discover()}
        want = {l: [sid[t] for t in ts] for l, ts in os_.items()}
        for ver, py in xpy.interpreters():
            for mode, o in (('sequential', ropt), ('list', dict(ropt, list=True)),
                            ('parallel', dict(ropt, j=2))):
                real = xpy.execute(spec, argv_fix(o, src), ctx.scratch, py)
                if real is None or real.raised:
                    xprobes['xpy_unavailable'] = xprobes.get('xpy_unavailable', 0) + 1
                    continue
                xprobes['xpy_runs_py' + ver] = xprobes.get('xpy_runs_py' + ver, 0) + 1
                if mode == 'list':
                    # (str(test) names the method twice from 3.11 on: compare one spelling)
                    got = {l: [_one_spelling(x) for x in t]
                           for l, t in C.parse_listing(real.text) if l != '.EmptyLayer'}
                    exp = {l: [_one_spelling(x) for x in t] for l, t in want.items()}
                else:
                    got = flat(orders(m, TR.Truth(m, real.trace)))
                    exp = os_
                if got != exp:
                    viols.append(C.viol('C11/python-versions-disagree/%s/py%s' % (mode, ver),
                                        'seed %d, %s under CPython %s (real processes): %r; '
                                        'under 3.12: %r' % (reported, mode, ver, got, exp)))
    shuffled_big = sum(1 for l in ob if len(ob[l]) >= 2)
    return _ws.std_out(spec, ctx, results, viols,
                       {'layers_with_2+_tests': shuffled_big, seedmode: 1,
                        'order_changed': int(ob != os_), **xprobes},
                       nontrivial=shuffled_big > 0)
