"""C07 - subprocess result channel: nothing lost, nothing partial trusted, no hang."""
import copy
import random

from .. import common as C
from .. import core
from .. import truth as TR
from .. import world as W
from . import _ws

ID = 'C07'
TIERS = {'quick': {'seeds': 4500, 'seconds': 45, 'determinism': 32},
         'thorough': {'seconds': 900, 'determinism': 256, 'minimise_s': 120}}
RULE = ('runs with layer children (-j N, or layers resumed after a NotImplementedError tearDown) '
        'under channel faults: spawn failure; child death (exit 0/3, SIGKILL, SIGSEGV) at a random '
        'hook (directed: at EVERY hook site of small worlds); report truncated at a random byte '
        'offset (directed: at EVERY byte offset); kill after the n-th tape record with/without loss '
        'of unflushed stdout; 0..400 (thorough: 3000) failing test ids, unicode and very long ids; '
        'stdout/stderr noise up to 256 KiB before the report incl. lines that parse like the header; '
        'pipe capacity 16 B..64 KiB (back-pressure); EINTR on readline; stalls. Oracle: the '
        'scheduler knows whether the complete report was delivered: delivered => parent records '
        'exactly the child\'s ran/failed/errored; otherwise exactly one error for that layer and '
        'no partial data; always: no hang (structural deadlock detection), no worker thread died. '
        'distinct = digest of hook sequences + fired channel '
        'faults + completion order; non-trivial = a channel/child fault fired')
RULE += (' One seed in ten: reading one child\'s stderr fails (EIO) in the helper thread.')
RULE += (' ' + "Later additions: noise lines inside the report, stderr stalling after stdout closed, detached children, real exit statuses; one seed in four under line-level pre-emption of the parent's threads.")
HOWS = ['exit0', 'exit3', 'kill', 'segv', 'sysexit', 'kbdint']
UNI = ['test_ünï', 'test_中文', 'test_' + 'x' * 300, 'test_αβ']
# spellings a test id can have through parametrisation / __str__ (line-boundary characters of
# str.splitlines that bytes.splitlines does not know, tabs, embedded newline, long)
WEIRD = ['[line\u2028sep]', '[vt\x0bx]', '[ff\x0cx]', '[nel\x85x]', '[fs\x1cx]', '[a\nb]',
         '[tab\there]', '[ünï 中]', '[' + 'y' * 400 + ']', '[ps\u2029x]', '[1 2 3 4]', '[cr\rx]']


def legal_how(site, how):
    """sys.exit() ends a child only from a layer hook (in a test it is an error outcome), ^C
    only from a test or layer hook (an import catches everything)."""
    if how == 'sysexit' and site not in ('layer.setUp', 'layer.tearDown'):
        how = 'kbdint'
    if how == 'kbdint' and not site.startswith(('layer.', 'test.')):
        how = 'kill'
    return how


def hook_sites(world):
    m = W.Model(world)
    sites = []
    for d in m.discover():
        for ph in C.test_phases(d):
            sites.append(C.fault_entry(d, ph, {}))
        sites.append({'site': 'test.run', 'ident': d['tid']})
        sites.append({'site': 'test.ran', 'ident': d['tid']})
    for L in world['layers']:
        for h in W.HOOKS:
            if m.has_hook(L['name'], h):
                sites.append({'site': 'layer.' + h, 'ident': L['name']})
    for mod in world['modules']:
        sites.append({'site': 'module.import', 'ident': '%s.tests.%s' % (W.PKG, mod['name'])})
    sites.append({'site': 'module.import', 'ident': W.simrt.LAYERMOD})
    return sites


def make_world(rng, big=0, small=False):
    p = W.profile(min_layers=1, max_layers=2 if small else 4, p_unit=0.15,
                  max_modules=1 if small else 2, max_classes=2 if small else 3,
                  max_tests=2 if small else 4, max_total_tests=6 if small else 12)
    world = W.gen_world(rng, p)
    if rng.random() < 0.2:
        # unicode / very long ids
        c = world['modules'][0]['classes'][0]
        c['tests'].append({'name': rng.choice(UNI)})
        if world['modules'][0].get('suite') is not None:
            world['modules'][0]['suite'] = None
    if rng.random() < 0.3:
        # unusual id spellings on tests that are made to fail, so the names cross the channel
        cs = [c for m_ in world['modules'] for c in m_['classes']]
        for _ in range(rng.randint(1, 2)):
            t = rng.choice(rng.choice(cs)['tests'])
            if not t.get('deco'):
                t['idx'] = rng.choice(WEIRD)
                t['must_fail'] = rng.choice(['AssertionError', 'ValueError'])
    if big:
        L = world['layers'][0]['name']
        # (with very long ids the report alone exceeds a megabyte)
        tail = rng.choice(['', '', '_' + 'y' * 420])
        world['modules'][0]['classes'].append(
            {'name': 'TBig', 'layer': L,
             'tests': [{'name': 'test_%04d%s' % (i, tail)} for i in range(big)]})
        if world['modules'][0].get('suite') is not None:
            world['modules'][0]['suite'] = None
    return world


def gen(seed, thorough=False):
    rng = random.Random(seed)
    big = 0
    r = rng.random()
    if r < 0.06:
        big = rng.choice([50, 200, 400, 400, 1500, 3000])
    world = make_world(rng, big)
    m = W.Model(world)
    disc = m.discover()
    plan = C.gen_test_faults(rng, disc, rng.choice([0, 1, 2, 3]),
                             excs=['AssertionError', 'ValueError', 'SkipTest'], p_occ=0.1)
    for d in disc:
        if d['t'].get('must_fail'):
            plan.append(C.fault_entry(d, 'body', {'a': 'raise', 'exc': d['t']['must_fail']}))
    if big:
        plan.append({'site': 'test.body', 'ident': '*', 'a': 'raise',
                     'exc': rng.choice(['AssertionError', 'ValueError'])})
    sel = sorted(m.select({}))
    opt = {'v': rng.choice([0, 1, 2, 3]), 'j': rng.randint(2, 4)}
    if rng.random() < 0.15:
        opt['repeat'] = rng.randint(2, 3)     # the same test several times in a child's lists
    if rng.random() < 0.12 and world['layers']:
        # resumed mode instead of -j: a NotImplementedError tearDown early in the run
        cands = [L['name'] for L in world['layers'] if m.has_hook(L['name'], 'tearDown')]
        if cands:
            del opt['j']
            plan.append({'site': 'layer.tearDown', 'ident': rng.choice(cands), 'a': 'raise',
                         'exc': 'NotImplementedError', 'where': 'parent'})
    layers = sel or [W.UNIT]
    nf = rng.choice([1, 1, 1, 2, 3])
    for _ in range(nf):
        lf = rng.choice(layers)
        k = rng.random()
        if k < 0.22:
            sites = hook_sites(world)
            e = dict(rng.choice(sites))
            e.update({'a': 'die', 'how': legal_how(e['site'], rng.choice(HOWS)), 'where': 'child'})
            plan.append(e)
        elif k < 0.32:
            plan.append({'site': 'channel', 'ident': lf, 'a': 'spawn_fail',
                         'errno': rng.choice(['ENOMEM', 'EAGAIN', 'ENOENT']),
                         'exc': rng.choice(['OSError', 'OSError', 'ValueError',
                                            'UnicodeEncodeError', 'SubprocessError'])})
        elif k < 0.5:
            plan.append({'site': 'channel', 'ident': lf, 'a': 'truncate_report',
                         'at': rng.randint(0, 5000)})
        elif k < 0.62:
            plan.append({'site': 'channel', 'ident': lf, 'a': 'kill_after',
                         'n': rng.randint(0, 400), 'drop_unflushed': rng.random() < 0.5})
        elif k < 0.84:
            # noise on the child's real stderr / stdout, written by a test
            cands = [d for d in disc if C.test_phases(d)]
            if cands:
                d = rng.choice(cands)
                vol = rng.choice([1, 1, 3, 40, 3000, 70000, 262144])
                unit = rng.choice(['noise\n', 'x', 'éè noise 中\n', 'a b c\n',
                                   '7 0 0\n', '1 2 3 4\n', '12 abc 3\n', '\n', '1 0\n',
                                   # lines that only BEGIN like a header
                                   '1 2 3 4 5\n', '3 2 1 0 liftoff\n',
                                   '2026 09 30 12:00:01 starting\n', '1 2 3 4x\n'])
                text = (unit * (vol // len(unit) + 1))[:vol]
                if unit in ('7 0 0\n', '1 2 3 4\n'):
                    text = unit
                if rng.random() < 0.2:
                    junk = rng.choice([b'caf\xe9 na\xefve\n', b'\xff\xfe\x00binary\x80\n',
                                       b'\xc3(\n', b'\xe2\x82', b'\x80' * vol])
                    plan.append(C.fault_entry(d, rng.choice(C.test_phases(d)),
                                              {'a': 'write', 'stream': 'realstderr.bytes',
                                               'text': '', 'hex': junk.hex()}))
                else:
                    plan.append(C.fault_entry(d, rng.choice(C.test_phases(d)),
                                              {'a': 'write',
                                               'stream': rng.choice(['realstderr', 'realstderr',
                                                                     'stdout', 'stderr']),
                                               'text': text}))
        elif k < 0.88:
            # something writes to the child's fd 2 AFTER the report (atexit handler, interpreter
            # shutdown warnings), with or without a trailing newline
            inside = rng.random() < 0.35
            plan.append({'site': 'channel', 'ident': lf, 'a': 'noise', 'stream': 'E',
                         'pos': 0, 'after_report': not inside, 'in_report': inside,
                         'text': rng.choice(['bye', 'Exception ignored in: <x>\n', '\n',
                                             'sys:1: ResourceWarning: unclosed file\n', '0 0',
                                             'trailing junk \xe9'])})
        elif k < 0.905:
            plan.append({'site': 'channel', 'ident': lf, 'a': 'eintr',
                         'nth': rng.randint(1, 12)})
            if seed % 3 == 0:
                # ... or a transient read error of another kind: reported, then retried
                plan[-1]['errno'] = ['EIO', 'EAGAIN', 'EBADF'][(seed // 3) % 3]
        elif k < 0.945:
            # the child closes fds 1 and 2 but stays alive (daemonised helper, non-daemon
            # thread): EOF on both pipes of a living process
            e = {'site': 'channel', 'ident': lf, 'a': 'detach', 'pos': rng.randint(0, 200)}
            if rng.random() < 0.4:
                e['after_report'] = True
            plan.append(e)
        else:
            plan.append({'site': 'channel', 'ident': lf, 'a': 'stall',
                         'pos': rng.randint(0, 60), 'dt': rng.choice([0.005, 2.0, 45.0]),
                         'after_close': rng.random() < 0.4})
    knobs = {'pipe_capacity': rng.choice([16, 64, 512, 4096, 65536])}
    if seed % 10 == 9:
        # the system is out of threads when a worker wants to start the reader of its child's
        # stderr: that layer's report is not delivered - an error for it, nothing silently lost
        knobs['thread_start_fail'] = 1 + (seed // 10) % 3
    if seed % 10 == 4:
        # reading one child's stderr fails (EIO) in the helper thread: that layer's report is
        # not delivered - an error for it, nothing silently lost, no hang
        knobs['stderr_read_error'] = 1 + (seed // 10) % 3
    if 'j' not in opt and seed % 3 == 1:
        # resumed layers are relayed by the worker thread itself: one of its writes to the
        # parent's stdout fails (EAGAIN) - the child's report still counts
        knobs['worker_write_error'] = 1 + seed % 7
    if big >= 400:
        # (megabytes through a 16-byte pipe cost millions of scheduler steps: keep it bounded)
        knobs['pipe_capacity'] = max(knobs['pipe_capacity'], 4096)
        opt.pop('repeat', None)
    if rng.random() < 0.3:
        knobs['defaults_split'] = rng.randint(0, 99)
    plain_ids = not any(t.get('idx') or not t['name'].isascii()
                        for m_ in world['modules'] for c in m_['classes'] for t in c['tests'])
    if plain_ids and rng.random() < 0.12:
        # the parent's own stdout cannot encode everything (PYTHONIOENCODING=ascii): what it
        # quotes from a child may fail to print - the error must be on record regardless
        knobs['parent_stdout_ascii'] = True
        opt['v'] = max(1, opt['v'])
        # something not ASCII on every child's fd 2 early on, and one child that never gets
        # to its report: the banner quoting the child's stderr cannot be printed
        plan.append({'site': 'module.import', 'ident': W.simrt.LAYERMOD, 'a': 'write',
                     'stream': 'realstderr', 'text': 'avertissement: caf\xe9 \u4e2d\n',
                     'where': 'child'})
        plan.append({'site': 'channel', 'ident': rng.choice(layers), 'a': 'kill_after',
                     'n': rng.randint(1, 12), 'drop_unflushed': False})
    return {'property': ID, 'seed': seed, 'world': world, 'plan': _ws.order_plan(plan),
            'opt': opt, 'sched': {'prng': seed}, 'knobs': knobs}


def directed(tier, base_seed):
    """Every hook site of small worlds as a crash point; every byte offset of the report."""
    from .. import stubval
    for spec in stubval.specs(gen, base_seed, 80 if tier == 'thorough' else 8):
        yield spec
    nworlds = 6 if tier == 'thorough' else 2
    for wi in range(nworlds):
        seed = 700000 + base_seed * 100 + wi
        rng = random.Random(seed)
        world = make_world(rng, small=True)
        m = W.Model(world)
        disc = m.discover()
        base_plan = C.gen_test_faults(rng, disc, 2, excs=['AssertionError', 'ValueError'],
                                      p_occ=0.0)
        hows = HOWS if tier == 'thorough' else ['exit0', 'kill']
        for s in hook_sites(world):
            for how in hows:
                e = dict(s)
                e.update({'a': 'die', 'how': legal_how(e['site'], how), 'where': 'child'})
                yield {'property': ID, 'seed': seed, 'world': world,
                       'plan': _ws.order_plan(base_plan + [e]), 'opt': {'j': 2, 'v': 1},
                       'sched': {'prng': seed}, 'knobs': {'pipe_capacity': 512},
                       'directed': 'crash-point'}
        for lf in sorted(m.select({})):
            # the report of a small world is well below 600 bytes; offsets beyond its length
            # are clamped, so this covers every offset
            step = 1 if tier == 'thorough' else 3
            for off in range(0, 240, step):
                yield {'property': ID, 'seed': seed, 'world': world,
                       'plan': _ws.order_plan(base_plan + [
                           {'site': 'channel', 'ident': lf, 'a': 'truncate_report', 'at': 0,
                            'at_exact': off}]),
                       'opt': {'j': 2, 'v': 0}, 'sched': {'prng': seed},
                       'knobs': {'pipe_capacity': 4096}, 'directed': 'truncate-offset'}


def run(spec, ctx):
    if spec.get('stubval'):
        from .. import stubval
        return stubval.run(spec, ctx, ID)
    src = W.materialise(spec['world'], ctx.scratch)
    m = W.Model(spec['world'])
    res = core.execute(spec, W.argv(spec['opt'], src))
    T = TR.Truth(m, res.trace)
    viols = []
    lookalike = any(c['noise_header_before_report'] for c in res.children)
    ascii_out = bool((spec.get('knobs') or {}).get('parent_stdout_ascii'))
    if ascii_out and any(ev[0] == 0 and ev[1] == 'fault' and ev[2] in ('write:stdout', 'write:print')
                         and not spec['plan'][ev[3]].get('text', '').isascii()
                         for ev in res.trace):
        # a test run by the parent itself printed what the parent's stdout cannot encode: that
        # is an error of that test in this environment, nothing the channel has to do with
        ascii_out = None
    if ascii_out is None:
        pass
    elif res.hang:
        viols.append(C.viol('C07/hang', res.hang[:500]))
    elif res.raised and ascii_out and res.raised[0] == 'UnicodeEncodeError':
        pass      # the parent's main thread could not print: nothing to judge
    elif res.raised:
        viols.append(C.viol('C07/run-aborted/%s' % _ws.frames_sig(res.raised), repr(res.raised)))
    else:
        # (a worker that could not print its banner on an ascii-only stdout may die of that;
        # what it had to record must be on record all the same)
        if res.sched['thread_excs'] and not (
                ascii_out and all(x[1] == 'UnicodeEncodeError' for x in res.sched['thread_excs'])):
            viols.append(C.viol('C07/worker-thread-died/%s' % res.sched['thread_excs'][0][1],
                                repr(res.sched['thread_excs'])))
        # (the statement asks nothing about how the parent disposes of a finished child:
        # kill()/communicate()/wait() are counted as probes, not demanded)
        # what the parent must have recorded
        want_ran = 0
        want_f, want_e = [], []
        # the parent's own part (sequential prefix of a resumed run)
        want_ran += T.count(pid=0)[0] if not spec['opt'].get('repeat') else 0
        if spec['opt'].get('repeat'):
            # tests counted once per layer (last iteration)
            last = {}
            for o in T.occs:
                if o['pid'] == 0:
                    last.setdefault(o['layer'], {}).setdefault(o['occ'], 0)
                    last[o['layer']][o['occ']] += 1
            want_ran += sum(d[max(d)] for d in last.values())
        import re
        flat = lambda n: re.sub(r'[\r\n]+', ' ', n.strip())  # noqa: E731  (one line per name)
        want_f += [flat(n) for n in T.event_names(('failure', 'usuccess'), pid=0)]
        want_e += [flat(n) for n in T.event_names(('error',), pid=0)]
        want_e += ['Layer: %s.tearDown' % m.full(l) for p_, l, h, _ in T.layer_failures
                   if p_ == 0 and h == 'tearDown']
        nsetup0 = len([1 for p_, l, h, _ in T.layer_failures if p_ == 0 and h == 'setUp'])
        # a child that delivered its complete report and then died abnormally (killed between
        # the report and its exit): the statement lets the parent either use the report or
        # record an error for the layer instead (it can tell from the exit status) - the oracle
        # follows whichever the parent did, per child
        base_ran, base_f, base_e = want_ran, list(want_f), list(want_e)
        for c in res.children:
            abnormal = bool(c['died']) or any(k[0] in ('kill_after', 'truncate_report')
                                              for k in c['channel'])
            name = 'subprocess for %s' % c['layer']
            if not c['report_complete'] or c.get('reader_failed') or \
                    (abnormal and name in res.runner['errors']):
                want_e.append(name)
            else:
                want_ran += c['truth']['ran']
                want_f += c['truth']['failures']
                want_e += c['truth']['errors']
        nfailed_spawns = res.fired.count('spawn_fail')
        got = res.runner
        got_e = list(got['errors'])
        # failed spawns: one 'subprocess for <layer>' each
        for _ in range(nfailed_spawns):
            for name in got_e:
                if name.startswith('subprocess for ') and name not in want_e:
                    want_e.append(name)
                    break
            else:
                want_e.append('subprocess for <unspawned layer>')
        got_e_cmp = [n for n in got_e if not (n.startswith('Layer: ') and n.endswith('.setUp'))]
        nsetup_got = len(got_e) - len(got_e_cmp)
        kind = 'lookalike' if lookalike else (
            'report-incomplete' if any(not c['report_complete'] or c.get('reader_failed')
                                       for c in res.children)
            else ('spawn-failed' if nfailed_spawns else 'report-complete'))
        if got['ran'] != want_ran:
            viols.append(C.viol('C07/tests-run-count/' + kind,
                                'parent recorded %d tests run, children delivered %d; children %r'
                                % (got['ran'], want_ran,
                                   [(c['layer'], c['report_complete'], c['died'],
                                     c['truth'] and c['truth']['ran']) for c in res.children])))
        if sorted(got['failures']) != sorted(want_f):
            viols.append(C.viol('C07/failure-names/' + kind,
                                'parent recorded failures %r, delivered %r'
                                % (sorted(got['failures'])[:6], sorted(want_f)[:6])))
        if sorted(got_e_cmp) != sorted(want_e) or nsetup_got != nsetup0:
            viols.append(C.viol('C07/error-names/' + kind,
                                'parent recorded errors %r, expected %r (+%d layer setUp failures)'
                                % (sorted(got_e)[:8], sorted(want_e)[:8], nsetup0)))
        expected_failed = bool(want_f or want_e or nsetup0 or T.import_failures.get(0))
        if bool(res.verdict) != expected_failed:
            viols.append(C.viol('C07/verdict/' + kind, 'verdict %r, expected failed=%r'
                                % (res.verdict, expected_failed)))
    if lookalike and any(v['sig'].endswith('/lookalike') for v in viols):
        msgs = '; '.join(v['msg'] for v in viols if v['sig'].endswith('/lookalike'))
        viols = [v for v in viols if not v['sig'].endswith('/lookalike')]
        viols.append(C.viol('C07/lookalike-header-noise-before-report',
                            'a line that parses like the report header was written to the '
                            'child\'s real stderr before the report and was taken as the '
                            'header: ' + msgs))
    died = sum(1 for c in res.children if c['died'])
    bp = sum(a['backpressure'] for a in res.actors)
    out = _ws.std_out(spec, ctx, [res], viols,
                      {'children_died': died, 'children': len(res.children),
                       'report_incomplete': sum(1 for c in res.children
                                                if not c['report_complete']),
                       'backpressure_waits': bp,
                       'children_reaped': sum(1 for a in res.actors if a['reaped']),
                       'lookalike_noise_runs': int(lookalike),
                       'max_err_bytes': max([c['err_bytes'] for c in res.children] or [0]),
                       'directed_' + str(spec.get('directed')): 1},
                      nontrivial=bool(res.fired) or died > 0 or bp > 0)
    return out
