"""C01 - tests run with exactly their layer stack set up; layers nest like a stack."""
from .. import core
from .. import truth as TR
from .. import world as W
from . import _ws

ID = 'C01'
TIERS = {'quick': {'seeds': 15000, 'seconds': 45, 'determinism': 48},
         'thorough': {'seconds': 900, 'determinism': 512, 'minimise_s': 120}}
RULE = ('seeded layer DAGs (<= 6 layers, multiple inheritance, class/instance layers, hooks '
        'present/absent) with injected setUp/tearDown exceptions and NotImplementedError tearDowns '
        '(one-shot and persistent), options from --layer/-x/--repeat/--shuffle/-j N; the layer-stack '
        'automaton is replayed over every pid of the trace (parent, resumed children, -j children). '
        'distinct = digest of per-pid hook-site sequence + fired faults + completion order; '
        'non-trivial = a fault fired or children overlapped')
RULE += (' One seed in ten: the set-up of a layer with 2-3 bases fails after its bases were set up, followed by a layer over one of those bases.')
RULE += (' ' + 'Later additions: every group of tests that did not run needs a failed set-up attempt of its own.')
BIAS = dict(profile=dict(p_doctest=0.2, p_hook=0.9, max_layers=6, min_layers=2, p_unit=0.15),
            n_test_faults=[0, 0, 1, 2], n_layer_faults=[0, 1, 1, 2, 3],
            p_j=0.3, p_x=0.15, p_repeat=0.2, p_shuffle=0.2, p_layer_opt=0.15, p_buffer=0.0,
            test_excs=['AssertionError', 'ValueError', 'SkipTest'])


def gen(seed):
    spec = _ws.gen_ws(seed, ID, BIAS)
    if seed % 10 == 8:
        # the set-up of a layer with several bases fails after its bases were set up (sibling
        # layers stay behind, no longer a stack of one chain); the layers that run next need
        # only some of them
        import random
        rng = random.Random(seed ^ 0xC0116)
        world = spec['world']
        taken = {L['name'] for L in world['layers']}
        names = [n for n in rng.sample(['Qa', 'Qb', 'Qc', 'Qd', 'Qe', 'Qf'], 5) if n not in taken]
        if len(names) == 5 and world['modules']:
            a, b, c, p, l = names
            hooks = ['setUp', 'tearDown']
            nb = rng.choice([2, 2, 3])
            bases = [a, b, c][:nb]
            for n in bases:
                world['layers'].append({'name': n, 'kind': 'class', 'bases': [], 'hooks': hooks})
            world['layers'].append({'name': p, 'kind': 'class', 'bases': bases, 'hooks': hooks})
            world['layers'].append({'name': l, 'kind': 'class',
                                    'bases': [rng.choice(bases)], 'hooks': hooks})
            cls = world['modules'][0]['classes']
            cls.append({'name': 'TCQ8', 'tests': [{'name': 'test_a'}], 'layer': p})
            cls.append({'name': 'TCQ9', 'tests': [{'name': 'test_a'}, {'name': 'test_b'}],
                        'layer': l})
            if rng.random() < 0.4:
                cls.append({'name': 'TCQ7', 'tests': [{'name': 'test_a'}],
                            'layer': rng.choice(bases)})
            # which set-up fails: the derived layer's own, or the last base's
            victim = rng.choice([p, p, bases[-1]])
            spec['plan'].append({'site': 'layer.setUp', 'ident': victim, 'a': 'raise',
                                 'exc': rng.choice(['ValueError', 'KeyError'])})
            spec['opt'].pop('layer', None)
    return spec


def run(spec, ctx):
    src = W.materialise(spec['world'], ctx.scratch)
    m = W.Model(spec['world'])
    res = core.execute(spec, W.argv(spec['opt'], src))
    T = TR.Truth(m, res.trace)
    viols = _ws.oracle_layers(m, res, T)
    if res.raised or res.hang:
        # an aborted run is C04's finding; the automaton still applies to what happened before
        viols = [v for v in viols if v['sig'] != 'C01/not-torn-down']
    elif T.nie and (not spec['opt'].get('x') or not T.anything_bad()):
        # (-x ends a run only once something has failed)
        miss = _ws.unrun_selected(m, spec, res, T)
        if miss and not any(c['died'] or not c['report_complete'] for c in res.children):
            viols.append({'sig': 'C01/owed-tests-not-run-after-NotImplementedError',
                          'msg': 'after a tearDown raised NotImplementedError these selected '
                                 'tests never ran in any process: %r' % (miss[:5],)})
    return _ws.std_out(spec, ctx, [res], viols, {'nie_teardowns': len(T.nie),
                                                 'layer_failures': len(T.layer_failures)})
