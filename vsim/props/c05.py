"""C05 - per-test layer hooks bracket every test: bases first, mirrored, balanced."""
import random

from .. import common as C
from .. import core
from .. import world as W
from .. import xpy

ID = 'C05'
TIERS = {'quick': {'seeds': 15000, 'seconds': 45, 'determinism': 48},
         'thorough': {'seconds': 900, 'determinism': 512, 'minimise_s': 120}}
RULE = ('seeded worlds (layer DAG <= 5, <= 12 tests, every outcome kind via injected exceptions at '
        'setUp/body/subTest/tearDown/cleanup, --repeat, --shuffle, some -j) run under the real '
        'runner; per pid the testSetUp/testTearDown events inside every test.run..test.ran bracket '
        'are checked by the bracket automaton. distinct = digest of per-pid hook-site sequence + '
        'fired faults + option keys; non-trivial = at least one fault fired or a decorator/skip '
        'outcome occurred or children ran')
RULE += (' One seed in nine: a write to the runner\'s own stdout fails once (ENOSPC) at a seed-chosen point; the brackets entered so far must be balanced.')
RULE += (' Cross-version tier (directed specs): the same world and plan also run as REAL processes '
         'under every other supported CPython found on the machine (3.9, 3.10, 3.11, 3.13; unittest '
         'differs between them exactly where the runner hooks in), the same bracket automaton '
         'judges their traces.')
ASSUMPTIONS = ['no faults are injected into testSetUp/testTearDown themselves (an exception there '
               'aborts the run by design; that is C18 territory)']


def gen(seed):
    rng = random.Random(seed)
    p = W.profile(p_hook=0.8, p_deco_skip=0.12, p_deco_xfail=0.1, p_subtests=0.15,
                  p_doctest=0.2)
    world = W.gen_world(rng, p)
    m = W.Model(world)
    disc = m.discover()
    nf = rng.choice([0, 1, 1, 2, 3, 4])
    plan = C.gen_test_faults(rng, disc, nf, p_occ=0.3)
    opt = {'v': rng.choice([0, 1, 2, 3])}
    if rng.random() < 0.3:
        opt['repeat'] = rng.randint(2, 3)
    if rng.random() < 0.3:
        opt['shuffle_seed'] = rng.randint(0, 999)
    if rng.random() < 0.15:
        opt['j'] = rng.randint(2, 3)
    if rng.random() < 0.1:
        opt['progress'] = True
    if rng.random() < 0.08 and not opt.get('j'):
        # post-mortem debugging (scripted stdin: 'c'): the first failing test ends the run by
        # EndRun - its bracket must be closed all the same
        opt['pm'] = True
    knobs = {}
    if seed % 9 == 5:
        # a failing system call at an arbitrary point: one write to the runner's own stdout
        # fails (ENOSPC).  The run may die of it - every test bracket that was entered must
        # still be balanced
        knobs['stdout_write_fail'] = rng.randint(1, 80)
    return {'property': ID, 'seed': seed, 'world': world, 'plan': plan, 'opt': opt,
            'sched': {'prng': seed}, 'knobs': knobs}


def directed(tier, base_seed):
    """Cross-version specs: skip/subtest/expected-failure heavy worlds, sequential and -j."""
    out = []
    n = 20 if tier == 'quick' else 400
    for k in range(n):
        spec = gen(7700000 + base_seed * 1009 + k)
        spec['opt'].pop('pm', None)          # (a real -D run would wait for a terminal)
        spec['xpy'] = True
        out.append(spec)
    return out


def check_brackets_pm(m, res):
    """-D (post-mortem) mode: the runner brackets test.debug() with startTest/stopTest itself.
    Occurrence = the testSetUp events since the previous test, test.debug..test.debugged, and the
    testTearDown events that follow.  Same set / order / mirror rules."""
    viols = []
    disc = {d['tid']: d for d in m.discover()}
    stats = {'occ': 0, 'deco_skip': 0}
    events = [ev for ev in res.trace if ev[0] == 0 and ev[1] != 'fault']
    i, n = 0, len(events)
    ups = []
    while i < n:
        ev = events[i]
        if ev[1] == 'layer.testSetUp':
            ups.append(ev[2])
        elif ev[1] == 'test.debug':
            tid = ev[2]
            S, ups = ups, []
            j = i + 1
            while j < n and not (events[j][1] == 'test.debugged' and events[j][2] == tid):
                j += 1
            D = []
            k = j + 1
            while k < n and events[k][1] == 'layer.testTearDown':
                D.append(events[k][2])
                k += 1
            d = disc.get(tid)
            if d is not None:
                stats['occ'] += 1
                stack = m.closure(d['layer'])
                exp_up = {l for l in stack if m.has_hook(l, 'testSetUp')}
                exp_down = {l for l in stack if m.has_hook(l, 'testTearDown')}
                where = 'post-mortem mode, test %s: testSetUp=%r testTearDown=%r expected up=%r ' \
                        'down=%r' % (tid, S, D, sorted(exp_up), sorted(exp_down))
                if sorted(S) != sorted(exp_up):
                    viols.append(C.viol('C05/testSetUp-set-wrong/post-mortem', where))
                elif sorted(D) != sorted(exp_down):
                    viols.append(C.viol('C05/testTearDown-set-wrong/post-mortem', where))
                else:
                    both_s = [x for x in S if x in D]
                    both_d = [x for x in D if x in S]
                    bad = both_s != both_d[::-1]
                    for a_i, a in enumerate(S):
                        for b in S[a_i + 1:]:
                            if m.is_base(b, a):
                                bad = True
                    if bad:
                        viols.append(C.viol('C05/order/post-mortem', where))
            i = k - 1
        i += 1
    return viols, stats


def check_brackets(m, res):
    if '-D' in res.options:
        return check_brackets_pm(m, res)
    viols = []
    disc = {d['tid']: d for d in m.discover()}
    stats = {'occ': 0, 'deco_skip': 0}
    for pid, events in sorted(C.by_pid(res.trace).items()):
        occs, outside = C.occurrences(events)
        for ev in outside:
            if ev[1] in ('layer.testSetUp', 'layer.testTearDown'):
                viols.append(C.viol('C05/hook-outside-test',
                                    'pid %d: %s(%s) outside any test' % (pid, ev[1], ev[2])))
                break
        for oc in occs:
            if oc['open']:
                continue
            d = disc.get(oc['tid'])
            if d is None:
                continue
            stats['occ'] += 1
            stack = m.closure(d['layer'])
            exp_up = {l for l in stack if m.has_hook(l, 'testSetUp')}
            exp_down = {l for l in stack if m.has_hook(l, 'testTearDown')}
            S, D = [], []
            first_test = last_test = None
            pos_up, pos_down = [], []
            for i, ev in enumerate(oc['events']):
                if ev[1] == 'layer.testSetUp':
                    S.append(ev[2])
                    pos_up.append(i)
                elif ev[1] == 'layer.testTearDown':
                    D.append(ev[2])
                    pos_down.append(i)
                elif ev[1].startswith('test.'):
                    if first_test is None:
                        first_test = i
                    last_test = i
            deco_skip = d['t'].get('deco') == 'skip'
            kind = 'deco-skip' if deco_skip else 'started'
            if deco_skip:
                stats['deco_skip'] += 1
            where = 'pid %d test %s occurrence %d: testSetUp=%r testTearDown=%r expected up=%r ' \
                    'down=%r' % (pid, oc['tid'], oc['occ'], S, D, sorted(exp_up), sorted(exp_down))
            if deco_skip and not S and not D:
                continue
            if sorted(S) != sorted(exp_up):
                if not S and D:
                    viols.append(C.viol('C05/testTearDown-without-testSetUp/' + kind, where))
                else:
                    viols.append(C.viol('C05/testSetUp-set-wrong/' + kind, where))
                continue
            if sorted(D) != sorted(exp_down):
                viols.append(C.viol('C05/testTearDown-set-wrong/' + kind, where))
                continue
            bad = None
            for i, a in enumerate(S):
                for b in S[i + 1:]:
                    if m.is_base(b, a):
                        bad = 'testSetUp order: %s before its base %s' % (a, b)
            for i, a in enumerate(D):
                for b in D[i + 1:]:
                    if m.is_base(a, b):
                        bad = 'testTearDown order: base %s before derived %s' % (a, b)
            both_s = [x for x in S if x in D]
            both_d = [x for x in D if x in S]
            if both_s != both_d[::-1]:
                bad = 'testTearDown order is not the mirror of testSetUp order'
            if first_test is not None:
                if pos_up and max(pos_up) > first_test:
                    bad = 'testSetUp after the test began'
                if pos_down and min(pos_down) < last_test:
                    bad = 'testTearDown before the test ended'
            if bad:
                viols.append(C.viol('C05/order/' + kind, bad + '; ' + where))
    return viols, stats


def check_model(m, res):
    """Sanity of the harness' unittest model: executed phases == predicted phases."""
    disc = {d['tid']: d for d in m.discover()}
    for pid, events in C.by_pid(res.trace).items():
        occs, _ = C.occurrences(events)
        for oc in occs:
            if oc['open'] or oc['tid'] not in disc or oc.get('debug'):
                continue      # (-D: test.debug() stops at the first exception)
            d = disc[oc['tid']]
            pred = W.predict_test(W.with_class_flags(d), C.raised_map(oc))
            seen = [C.phase_of(ev) for ev in oc['events'] if C.phase_of(ev)]
            if seen != pred['phases']:
                raise core.HarnessError('unittest model mismatch for %s: predicted %r saw %r'
                                        % (oc['tid'], pred['phases'], seen))


def run(spec, ctx):
    src = W.materialise(spec['world'], ctx.scratch)
    m = W.Model(spec['world'])
    import io
    import sys
    old_stdin = sys.stdin
    sys.stdin = io.StringIO('c\n' * 200)
    try:
        res = core.execute(spec, W.argv(spec['opt'], src))
    finally:
        sys.stdin = old_stdin
    viols, st = check_brackets(m, res)
    if 'stdout_write_fail' not in res.fired:
        check_model(m, res)      # (a test cut short by the injected OSError runs fewer phases)
    fired = C.merge_counts(C.fired_kinds(res.trace), {k: 1 for k in res.fired})
    xprobes = {}
    if spec.get('xpy'):
        for ver, py in xpy.interpreters():
            real = xpy.execute(spec, W.argv(spec['opt'], src), ctx.scratch, py)
            if real is None:
                xprobes['xpy_unavailable'] = xprobes.get('xpy_unavailable', 0) + 1
                continue
            xprobes['xpy_runs_py' + ver] = 1
            xv, xst = check_brackets(m, real)
            xprobes['xpy_test_occurrences'] = xprobes.get('xpy_test_occurrences', 0) + xst['occ']
            if real.raised and not xv:
                xprobes['xpy_run_aborted'] = xprobes.get('xpy_run_aborted', 0) + 1
            for v in xv:
                viols.append(C.viol(v['sig'] + '/py' + ver, 'under CPython %s (real processes): %s'
                                    % (ver, v['msg'])))
    out = {'violations': viols, 'digest': core.digest_of(res, ctx.norm),
           'shape': C.shape_of(spec, [res]),
           'nontrivial': bool(fired) or st['deco_skip'] > 0 or res.sched['spawned'] > 0,
           'faults': fired, 'probes': dict(res.sched['probes'], test_occurrences=st['occ'],
                                           deco_skip_occurrences=st['deco_skip'], **xprobes),
           'modes': ['-j' if spec['opt'].get('j') else 'sequential'],
           'steps': res.sched['steps'], 'simtime': res.sched['simtime'], 'execs': 1}
    if res.raised and not viols:
        # the run aborted: nothing more to say for C05 (C04 owns containment), but keep it visible
        out['probes']['run_aborted'] = 1
    if getattr(ctx, 'want_sample', False):
        out['sample'] = C.sample_of(spec, res)
    return out
