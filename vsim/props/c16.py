"""C16 - --stop-on-error stops after the first failing test but still cleans up."""
from .. import core
from .. import truth as TR
from .. import world as W
from . import _ws

ID = 'C16'
TIERS = {'quick': {'seeds': 12000, 'seconds': 45, 'determinism': 48},
         'thorough': {'seconds': 900, 'determinism': 512, 'minimise_s': 120}}
RULE = ('seeded worlds run with -x and at least one injected bad outcome (failure, error, '
        'unexpected success, failing subtest, layer setUp failure) at a random position, with '
        '--repeat/--shuffle, sequential and in children; automaton per pid: no test.run (and in the '
        'sequential parent no layer setUp) after the first bad outcome; layers torn down, summary '
        'printed, verdict failed. distinct = digest of hook-site sequence + faults; non-trivial = '
        'a bad outcome occurred')
BIAS = dict(n_test_faults=[1, 1, 2, 3], n_layer_faults=[0, 0, 1, 1], layer_kinds=('setUp', 'nie', 'nie'),
            p_x=1.0, p_j=0.2, p_repeat=0.35, p_shuffle=0.3, p_buffer=0.3,
            test_excs=['AssertionError', 'ValueError', 'KeyError', 'CustomError'],
            profile=dict(p_doctest=0.2, p_deco_xfail=0.15, p_subtests=0.2))


def gen(seed):
    spec = _ws.gen_ws(seed, ID, BIAS)
    import random
    srng = random.Random(seed ^ 0xC16)
    m = W.Model(spec['world'])
    if seed % 5 == 1:
        # a layer tearDown that fails (between two layers or in the final pass): the run still
        # ends with the other layers torn down, a summary and the verdict 'failed'
        cands = [L['name'] for L in spec['world']['layers'] if m.has_hook(L['name'], 'tearDown')]
        if cands:
            spec['plan'].append({'site': 'layer.tearDown', 'ident': srng.choice(cands),
                                 'a': 'raise', 'exc': srng.choice(['ValueError', 'KeyError'])})
    if seed % 7 == 5 and not spec['opt'].get('j'):
        # a resumed child whose report arrives late (its stderr stays open after its stdout
        # was closed): the parent must know the outcome before it starts the next layer
        lays = [m.full(L['name']) for L in spec['world']['layers']] + [W.UNIT]
        for lf in lays:
            spec['plan'].append({'site': 'channel', 'ident': lf, 'a': 'stall',
                                 'pos': srng.randint(0, 60),
                                 'dt': srng.choice([0.5, 2.0, 45.0]), 'after_close': True})
        if not any(e.get('exc') == 'NotImplementedError' for e in spec['plan']):
            cands = [L['name'] for L in spec['world']['layers']
                     if m.has_hook(L['name'], 'tearDown')]
            if cands:
                spec['plan'].append({'site': 'layer.tearDown', 'ident': srng.choice(cands),
                                     'a': 'raise', 'exc': 'NotImplementedError',
                                     'where': 'parent'})
    if seed % 7 == 3 and not spec['opt'].get('j'):
        # reading the stderr of a resumed child fails (EIO): its report is lost, which is an
        # error of that layer - the parent must not start the next layer as if nothing happened
        spec.setdefault('knobs', {})['stderr_read_error'] = 1 + (seed // 7) % 2
        if not any(e.get('exc') == 'NotImplementedError' for e in spec['plan']):
            cands = [L['name'] for L in spec['world']['layers']
                     if m.has_hook(L['name'], 'tearDown')]
            if cands:
                spec['plan'].append({'site': 'layer.tearDown', 'ident': srng.choice(cands),
                                     'a': 'raise', 'exc': 'NotImplementedError',
                                     'where': 'parent'})
    return spec


def run(spec, ctx):
    src = W.materialise(spec['world'], ctx.scratch)
    m = W.Model(spec['world'])
    res = core.execute(spec, W.argv(spec['opt'], src))
    T = TR.Truth(m, res.trace)
    viols = _ws.oracle_stop(m, spec, res, T) if spec['opt'].get('x') else []
    return _ws.std_out(spec, ctx, [res], viols,
                       {'runs_with_bad_outcome': int(T.anything_bad())},
                       nontrivial=T.anything_bad())
