"""C18 - interpreter-global state changed for a run is restored afterwards."""
import gc
import io
import os
import random
import re
import sys
import threading
import traceback
import warnings

from .. import common as C
from .. import core
from .. import truth as TR
from .. import world as W
from . import _ws

ID = 'C18'
TIERS = {'quick': {'seeds': 8000, 'seconds': 45, 'determinism': 24},
         'thorough': {'seconds': 900, 'determinism': 128, 'minimise_s': 120}}
RULE = ('in-process runs of small worlds under every subset of {--gc a [b [c]], -G flag..., '
        '--coverage, --profile cProfile, --buffer, warnings= argument (or an interpreter started '
        'with -W), -D with scripted stdin}, tests that trace themselves or change the warnings '
        'filters, x '
        'ways the test phase ends {normally, failing tests, exception escaping a layer '
        'testSetUp/testTearDown, KeyboardInterrupt in a test phase or layer hook, -x, -D/EndRun}; '
        'snapshot of gc thresholds/debug flags, traceback.format_exception/print_exception, '
        'sys/threading trace+profile hooks, the sys.settrace attribute, warnings.filters/'
        'showwarning and sys.stdout/sys.stderr before == after, whether run_internal returned or '
        'raised. distinct = option subset x abort kind x hook-site digest; non-trivial = at '
        'least one state-changing option and the run reached the test phase')
RULE += (' ' + 'Later additions: runs that only list or are refused by the option check; -j N runs whose children all fail, under line-level pre-emption of the worker threads; a trace function installed before the run; gc state set before the run; sys.monitoring profiler slot.')
GCFLAGS = ['DEBUG_UNCOLLECTABLE', 'DEBUG_SAVEALL', 'DEBUG_LEAK']
ABORTS = ['normal', 'failing', 'testSetUp-raises', 'testTearDown-raises', 'both-hooks-raise',
          'kbd-test', 'kbd-layer-hook', 'stop-on-error', 'post-mortem',
          # runs that return without a test phase: listing only / refused by the option check
          'list-only', 'options-fail',
          # -j N whose children die / cannot be started / deliver half a report: the parent's
          # worker threads report that while the main loop prints (pre-empted line by line)
          'children-fail']


def gen(seed):
    rng = random.Random(seed)
    p = W.profile(max_layers=2, min_layers=1, max_modules=1, max_classes=2, max_tests=3,
                  p_hook=0.9, p_unit=0.1, p_suite_tree=0.0, max_total_tests=5)
    world = W.gen_world(rng, p)
    m = W.Model(world)
    disc = m.discover()
    cfg = {}
    if rng.random() < 0.5:
        cfg['gc'] = rng.choice([[0], [5], [7, 3], [400, 5, 5]])
    if rng.random() < 0.4:
        cfg['gcopt'] = rng.sample(GCFLAGS, rng.randint(1, 2))
    if rng.random() < 0.3:
        cfg['coverage'] = True
    if rng.random() < 0.3:
        cfg['profile'] = True
    if rng.random() < 0.5:
        cfg['buffer'] = True
    if rng.random() < 0.5:
        cfg['warnings'] = rng.choice(['ignore', 'always', 'default', 'module', 'once'])
    abort = rng.choice(ABORTS)
    plan = []
    tests = [d for d in disc if C.test_phases(d)]
    if abort == 'failing' and tests:
        plan += C.gen_test_faults(rng, disc, 2, excs=['AssertionError', 'ValueError'], p_occ=0)
    elif abort in ('testSetUp-raises', 'testTearDown-raises', 'both-hooks-raise'):
        hooks = ['testSetUp', 'testTearDown'] if abort == 'both-hooks-raise' \
            else [abort.split('-')[0]]
        for hook in hooks:
            cands = [L['name'] for L in world['layers'] if m.has_hook(L['name'], hook)]
            if cands:
                e = {'site': 'layer.' + hook, 'ident': rng.choice(cands), 'a': 'raise',
                     'exc': rng.choice(['ValueError', 'KeyError'])}
                if abort != 'both-hooks-raise' or hook == 'testSetUp':
                    e['occ'] = rng.choice([0, 1, 2])
                plan.append(e)
        # the hook may fire around a test of any outcome (skipped inside the test, failing, ...)
        if rng.random() < 0.6:
            plan += C.gen_test_faults(rng, disc, rng.randint(1, 3),
                                      excs=['SkipTest', 'SkipTest', 'AssertionError',
                                            'ValueError'], p_occ=0)
        if rng.random() < 0.4:
            plan = _ws.gen_writes(rng, disc, 2) + plan
    elif abort == 'kbd-test' and tests:
        d = rng.choice(tests)
        plan.append(C.fault_entry(d, rng.choice(C.test_phases(d)),
                                  {'a': 'raise', 'exc': 'KeyboardInterrupt'}))
        if rng.random() < 0.5:
            plan = _ws.gen_writes(rng, disc, 2) + plan
    elif abort == 'kbd-layer-hook':
        cands = [(L['name'], h) for L in world['layers'] for h in W.HOOKS
                 if m.has_hook(L['name'], h)]
        if cands:
            L, h = rng.choice(cands)
            plan.append({'site': 'layer.' + h, 'ident': L, 'a': 'raise',
                         'exc': 'KeyboardInterrupt'})
    elif abort == 'stop-on-error' and tests:
        plan += C.gen_test_faults(rng, disc, 1, excs=['AssertionError', 'ValueError'], p_occ=0)
        cfg['x'] = True
    elif abort == 'children-fail':
        sel = sorted(m.select({})) or [W.UNIT]
        cfg['j'] = rng.randint(2, 3)
        for lf in sel:
            k = rng.random()
            if k < 0.3:
                plan.append({'site': 'channel', 'ident': lf, 'a': 'spawn_fail',
                             'errno': rng.choice(['ENOMEM', 'EAGAIN']), 'exc': 'OSError'})
            elif k < 0.65:
                plan.append({'site': 'channel', 'ident': lf, 'a': 'truncate_report',
                             'at': rng.randint(0, 40)})
            else:
                plan.append({'site': 'channel', 'ident': lf, 'a': 'kill_after',
                             'n': rng.randint(0, 60), 'drop_unflushed': rng.random() < 0.5})
        cfg['line_preempt'] = rng.choice([0.1, 0.3, 0.5])
    elif abort == 'list-only':
        cfg['list'] = True
    elif abort == 'options-fail':
        cfg['optfail'] = rng.choice([['-r'], ['--subunit'], ['-r', '-N', '2'],
                                     ['--subunit', '--subunit-v2']])
    elif abort == 'post-mortem' and tests:
        plan += C.gen_test_faults(rng, disc, 1, excs=['AssertionError', 'ValueError'], p_occ=0)
        cfg['pm'] = True
    # tests and test modules that touch the same interpreter globals themselves
    if tests and rng.random() < 0.3:
        # a test that traces itself and switches its tracer off again (sys.settrace(None))
        d = rng.choice(tests)
        plan.insert(0, C.fault_entry(d, rng.choice(C.test_phases(d)),
                                     {'a': 'call', 'fn': 'settrace_cycle'}))
    if rng.random() < 0.35:
        # a module-level filterwarnings() of a test module, or a simplefilter() a test leaves
        site = {'site': 'module.import',
                'ident': '%s.tests.%s' % (W.PKG, rng.choice(world['modules'])['name'])}
        if tests and rng.random() < 0.5:
            d = rng.choice(tests)
            site = C.fault_entry(d, rng.choice(C.test_phases(d)), {})
        site.update({'a': 'call', 'fn': 'filterwarnings',
                     'action': rng.choice(['error', 'ignore', 'always'])})
        plan.insert(0, site)
    if rng.random() < 0.2:
        # a test that leaves the working directory changed (the profiler looks for its data
        # files in the start directory by default: its tear-down then fails)
        cfg['profile_dir_default'] = True
        if tests:
            d = rng.choice(tests)
            plan.insert(0, C.fault_entry(d, rng.choice(C.test_phases(d)),
                                         {'a': 'chdir', 'to': '/'}))
    if rng.random() < 0.2:
        # the embedding process already has gc settings of its own before the run
        cfg['pre_gc_debug'] = rng.sample(GCFLAGS, rng.randint(1, 2))
        cfg['pre_gc_threshold'] = rng.choice([[701, 11, 11], [500, 5, 5]])
    if cfg.get('profile') and tests and rng.random() < 0.3:
        # a test that removes the directory the profiler writes its data to
        d = rng.choice(tests)
        plan.insert(0, C.fault_entry(d, rng.choice(C.test_phases(d)),
                                     {'a': 'call', 'fn': 'rm_profile_dir'}))
    if 'warnings' not in cfg and rng.random() < 0.4:
        # the embedding interpreter was started with -W...: the runner adds no filter of its own
        cfg['warnoptions'] = rng.choice([['ignore::ImportWarning'], ['default'], ['error::BytesWarning']])
    elif rng.random() < 0.1:
        cfg['warnings'] = ''
    opt = {'v': rng.choice([0, 1, 2])}
    if abort != 'post-mortem' and rng.random() < 0.15 and \
            not any(e.get('fn') == 'settrace_cycle' for e in plan):
        # the embedding process runs under a trace function of its own (a debugger, an outer
        # coverage measurement): that is what must be installed again afterwards.  (Not with
        # -D: pdb's `continue` removes the trace function itself; not with tests that do.)
        cfg['pre_trace'] = True
    knobs = {}
    if cfg.get('j'):
        opt['j'] = cfg['j']
        knobs['line_preempt'] = cfg['line_preempt']
    return {'property': ID, 'seed': seed, 'world': world, 'plan': _ws.order_plan(plan),
            'opt': opt, 'cfg': cfg, 'abort': abort, 'sched': {'prng': seed}, 'knobs': knobs}


def snapshot():
    s = {
        'gc.threshold': gc.get_threshold(),
        'gc.debug': gc.get_debug(),
        'traceback.format_exception': id(traceback.format_exception),
        'traceback.print_exception': id(traceback.print_exception),
        'sys.gettrace': repr(sys.gettrace()),
        'sys.getprofile': repr(sys.getprofile()),
        'threading.trace': repr(threading.gettrace()),
        'threading.profile': repr(threading.getprofile()),
        'sys.settrace-attr': id(sys.settrace),
        'warnings.filters': [repr(f) for f in warnings.filters],
        'warnings.showwarning': id(warnings.showwarning),
        'sys.stdin': id(sys.stdin),
    }
    mon = getattr(sys, 'monitoring', None)
    if mon is not None:
        # (3.12: cProfile hooks in through sys.monitoring, sys.getprofile() stays None)
        s['sys.monitoring.profiler'] = mon.get_tool(mon.PROFILER_ID)
    return s


def run(spec, ctx):
    src = W.materialise(spec['world'], ctx.scratch)
    m = W.Model(spec['world'])
    cfg = spec['cfg']
    args = W.argv(spec['opt'], src)
    for g in cfg.get('gc') or []:
        args += ['--gc', str(g)]
    for g in cfg.get('gcopt') or []:
        args += ['-G', g]
    if cfg.get('coverage'):
        args += ['--coverage', os.path.join(ctx.scratch, 'cov')]
    if cfg.get('profile'):
        os.makedirs(os.path.join(ctx.scratch, 'prof'), exist_ok=True)
        args += ['--profile', 'cProfile']
        if not cfg.get('profile_dir_default'):
            # (else the default: the directory the run was started in)
            args += ['--profile-directory', os.path.join(ctx.scratch, 'prof')]
    if cfg.get('buffer'):
        args.append('--buffer')
    if cfg.get('x'):
        args.append('-x')
    if cfg.get('pm'):
        args.append('-D')
    if cfg.get('list'):
        args.append('--list-tests')
    args += cfg.get('optfail') or []
    kw = {}
    if cfg.get('warnings') is not None:
        kw['warnings'] = cfg['warnings']

    def spy(frame, event, arg):
        return None

    def settrace_cycle(e):
        sys.settrace(spy)
        sys.settrace(None)

    def filterwarnings(e):
        warnings.simplefilter(e['action'], category=UserWarning)
        warnings.filterwarnings('ignore', category=ResourceWarning, message='vsim')

    def rm_profile_dir(e):
        import shutil
        shutil.rmtree(os.path.join(ctx.scratch, 'prof'), ignore_errors=True)

    from .. import simrt
    orig_install = simrt.install

    def install(*a, **kw_):
        rt = orig_install(*a, **kw_)
        rt.extra['calls'] = {'settrace_cycle': settrace_cycle, 'filterwarnings': filterwarnings,
                             'rm_profile_dir': rm_profile_dir}
        return rt
    old_warnoptions = list(sys.warnoptions)
    # gc debug flags / cProfile print to the real stderr: keep the lane's stderr clean
    devnull = os.open(os.devnull, os.O_WRONLY)
    os.dup2(devnull, 2)
    old_stdin = sys.stdin
    sys.stdin = io.StringIO('c\n' * 50)
    gc.disable()
    simrt.install = install
    if cfg.get('warnoptions'):
        sys.warnoptions[:] = cfg['warnoptions']
    pre = gc.get_debug(), gc.get_threshold()
    if cfg.get('pre_gc_debug'):
        flags = 0
        for g in cfg['pre_gc_debug']:
            flags |= getattr(gc, g)
        gc.set_debug(flags)
        gc.set_threshold(*cfg['pre_gc_threshold'])
    if cfg.get('pre_trace'):
        def outer_tracer(frame, event, arg):
            return None
        sys.settrace(outer_tracer)
        threading.settrace(outer_tracer)
    before = snapshot()
    try:
        res = core.execute(spec, args, run_kwargs=kw)
    finally:
        after = snapshot()
        if cfg.get('pre_trace'):
            sys.settrace(None)
            threading.settrace(None)
        gc_was_enabled = gc.isenabled()
        simrt.install = orig_install
        sys.warnoptions[:] = old_warnoptions
        gc.set_debug(pre[0])
        gc.set_threshold(*pre[1])
    stdin_restored = sys.stdin is not None
    sys.stdin = old_stdin
    T = TR.Truth(m, res.trace)
    viols = []
    how = 'raised:' + res.raised[0] if res.raised else 'returned'
    reached_tests = any(ev[1].startswith(('test.', 'layer.')) for ev in res.trace)
    statechanging = sorted(k for k in cfg if k in ('gc', 'gcopt', 'coverage', 'profile',
                                                    'buffer', 'warnings', 'pm'))
    for k in before:
        if k == 'sys.stdin':
            continue
        if before[k] != after[k]:
            if cfg.get('pre_trace') and k in ('sys.gettrace', 'threading.trace'):
                # (addresses of function objects: keep messages reproducible)
                before[k] = re.sub(r' at 0x[0-9a-f]+', '', before[k])
            viols.append(C.viol('C18/%s-not-restored/%s' % (k, spec['abort']),
                                'options %r, test phase ended by %s (%s): %s was %r, is %r'
                                % (statechanging, spec['abort'], how, k, before[k], after[k])))
    if not all(res.streams_restored):
        viols.append(C.viol('C18/std-streams-not-restored/%s' % spec['abort'],
                            'options %r, ended by %s (%s): stdout/stderr restored = %r'
                            % (statechanging, spec['abort'], how, res.streams_restored)))
    # which exception ends the run is not C18's business (only the state afterwards is);
    # profiler/coverage/gc reports contain real timings: keep them out of the digest
    res.out = [(t, x) for t, x in res.out
               if not (cfg.get('profile') or cfg.get('coverage') or cfg.get('gcopt')
                       or cfg.get('pre_gc_debug'))]
    if res.raised:
        res.raised = (res.raised[0], '', '')
    out = _ws.std_out(spec, ctx, [res], viols,
                      dict({'abort_' + spec['abort']: 1, 'ended_' + how: 1},
                           **{'opt_' + k: 1 for k in statechanging}),
                      nontrivial=bool(statechanging) and reached_tests)
    import hashlib
    out['shape'] = hashlib.sha256((out['shape'] + repr(statechanging) + spec['abort'] + how)
                                  .encode()).hexdigest()[:16]
    return out
