"""C19 - threads left behind by a test are reported precisely."""
import random
import re

from .. import common as C
from .. import core
from .. import simrt
from .. import threadsim
from .. import truth as TR
from .. import world as W
from . import _ws

ID = 'C19'
TIERS = {'quick': {'seeds': 9000, 'seconds': 45, 'determinism': 24},
         'thorough': {'seconds': 900, 'determinism': 128, 'minimise_s': 120}}
RULE = ('sequential runs in which test phases start REAL threads (threading.Thread or '
        '_thread.start_new_thread; named/unnamed; matching or not matching --ignore-new-thread) '
        'that block until a later, seeded release point (a later phase of the same test, a layer '
        'per-test hook, or any phase of a later test / iteration); the runner sees the thread '
        'tables through views in which thread idents are allocated by the simulator, recycling the '
        'ident of an ended thread with a seeded probability. Oracle: the "left new threads behind" '
        'blocks must name, per test occurrence, exactly the threads started during it that are '
        'alive when it ends and not ignored. distinct = digest of hook sequence + thread ops; '
        'non-trivial = a thread outlived its test or an ident was recycled')
REAL_VS_STUB = {
    'real': 'TestResult.startTest/stopTest, threadsupport.enumerate/ThreadProxy/DummyThread, '
            'formatter.test_threads; the leaked threads are real OS threads',
    'stub': 'thread ident allocation (views over sys._current_frames / threading.enumerate '
            'translate real idents to simulated ones); release points decided by the plan',
}
BLOCK_RE = re.compile(r'The following test left new threads behind:\n(.*)\nNew thread\(s\): '
                      r'\[(.*)\]')


def gen(seed):
    rng = random.Random(seed)
    p = W.profile(max_layers=2, min_layers=1, max_modules=1, max_classes=2, max_tests=4,
                  p_hook=0.8, p_unit=0.2, p_suite_tree=0.0, max_total_tests=6,
                  p_deco_skip=0.05, p_deco_xfail=0.05, p_subtests=0.0)
    world = W.gen_world(rng, p)
    m = W.Model(world)
    disc = [d for d in m.discover() if C.test_phases(d)]
    plan = []
    nthreads = rng.choice([1, 2, 2, 3, 4, 5])
    sites = []
    for d in disc:
        for ph in C.test_phases(d):
            sites.append(C.fault_entry(d, ph, {}))
    lsites = [{'site': 'layer.' + h, 'ident': L['name']} for L in world['layers']
              for h in ('testSetUp', 'testTearDown') if m.has_hook(L['name'], h)]
    repeat = rng.choice([1, 1, 2])
    if sites:
        for k in range(nthreads):
            s = dict(rng.choice(sites + lsites if rng.random() < 0.25 else sites))
            kind = rng.choice(['threading', 'threading', 'lowlevel'])
            name = rng.choice(['worker-%d' % k, 'pool-%d' % k, 'ignored-%d' % k, None,
                               'worker', 'worker'])
            s.update({'a': 'call', 'fn': 'thread_start', 'tname': 'T%d' % k, 'kind': kind,
                      'name': name, 'occ': rng.randrange(repeat)})
            plan.append(s)
            if kind == 'lowlevel' and rng.random() < 0.35:
                # it makes itself known to threading at some later point (logging,
                # threading.current_thread()): same thread, different object in the tables
                e = dict(rng.choice(sites + lsites))
                e.update({'a': 'call', 'fn': 'thread_poke', 'tname': 'T%d' % k})
                if rng.random() < 0.7:
                    e['occ'] = rng.randrange(repeat * 2)
                plan.append(e)
            if kind == 'threading' and rng.random() < 0.25:
                # it is renamed while it runs (a pool worker picking up a job): the ignore
                # patterns see the name it has when a test ends
                e = dict(rng.choice(sites + lsites))
                e.update({'a': 'call', 'fn': 'thread_rename', 'tname': 'T%d' % k,
                          'name': rng.choice(['job-%d' % k, 'ignored-x', 'pool-9', 'worker-2'])})
                if rng.random() < 0.7:
                    e['occ'] = rng.randrange(repeat * 2)
                plan.append(e)
            r = rng.random()
            if r < 0.75:
                e = dict(rng.choice(sites + lsites))
                e.update({'a': 'call', 'fn': 'thread_end', 'tname': 'T%d' % k})
                if rng.random() < 0.7:
                    e['occ'] = rng.randrange(repeat * 2)
                plan.append(e)
    if rng.random() < 0.3:
        plan += C.gen_test_faults(rng, disc, 1, excs=['AssertionError', 'ValueError', 'SkipTest'])
    opt = {'v': rng.choice([0, 1, 2])}
    if repeat > 1:
        opt['repeat'] = repeat
    ign = []
    if rng.random() < 0.4:
        ign = rng.sample(['ignored', 'pool-1', 'Dummy', 'worker-[02]', 'orker', '-1$',
                          'ool-', r'worker$', '(?i)IGNORED', r'(pool)-\d', r'(\w+)-\1',
                          '(?i)KEEPALIVE'], rng.randint(1, 3))
        # (patterns are independent regular expressions: inline flags and group numbers of
        # one must not reach into another)
        opt['extra'] = ['--ignore-new-thread=%s' % x for x in ign]
    # starts before ends at the same site; raises last
    plan = [e for e in plan if e.get('fn') == 'thread_start'] + \
           [e for e in plan if e.get('fn') in ('thread_poke', 'thread_rename')] + \
           [e for e in plan if e.get('fn') == 'thread_end'] + \
           [e for e in plan if e['a'] != 'call']
    if seed % 6 == 2:
        starts = [e for e in plan if e.get('fn') == 'thread_start']
        if starts:
            e0 = starts[(seed // 6) % len(starts)]
            e0['end_on_sleep'] = True
            plan = [e for e in plan if not (e.get('fn') == 'thread_end'
                                            and e.get('tname') == e0['tname'])]
    spec = {'property': ID, 'seed': seed, 'world': world, 'plan': plan, 'opt': opt,
            'ignore': ign, 'sched': {'prng': seed},
            'knobs': {'p_reuse': rng.choice([0.0, 0.5, 1.0, 1.0])}}
    if seed % 6 == 1:
        # a history of runs in ONE interpreter (an embedding program, the project's own
        # doctests): an earlier run was given ignore patterns - this run has only its own
        spec['earlier_run_ignores'] = rng.choice([['.*'], ['leak', 'T'], ['Dummy', 'Thread'],
                                                  ['(?i)[a-z]']])
        spec['reuse_modules'] = True
    return spec


def expected_reports(spec, res, tw):
    """[(sid, sorted reprs)] per test occurrence with leaked, non-ignored threads."""
    plan = spec['plan']
    # (the patterns the runner was really given: the minimiser may drop the option)
    ign = [re.compile(x.split('=', 1)[1]) for x in (spec['opt'].get('extra') or [])
           if x.startswith('--ignore-new-thread=')]
    events = [ev for ev in res.trace if ev[0] == 0]
    occs, _ = C.occurrences(events)
    # timeline index of every thread op
    started = {}
    ended = {}
    poked = {}
    renames = {}     # tname -> [(trace index, new name)]
    pre_test = set()     # threads started inside a layer's testSetUp hook: before the test
    last_site = None
    for i, ev in enumerate(events):
        if ev[1] != 'fault':
            last_site = ev[1]
        elif ev[2] == 'call:thread_start' and last_site == 'layer.testSetUp':
            pre_test.add(plan[ev[3]]['tname'])
        if ev[1] == 'fault' and ev[2] == 'call:thread_rename':
            e_ = plan[ev[3]]
            tn = e_['tname']
            if tn in started and tn not in ended and tw.reg[tn]['kind'] == 'threading':
                renames.setdefault(tn, []).append((i, e_['name']))
        if ev[1] == 'fault' and ev[2] == 'call:thread_poke':
            tn = plan[ev[3]]['tname']
            if tn in started and tn not in ended and tw.reg[tn]['kind'] == 'lowlevel':
                poked.setdefault(tn, i)
        if ev[1] == 'fault' and ev[2] == 'call:thread_start':
            started.setdefault(plan[ev[3]]['tname'], i)
        elif ev[1] == 'fault' and ev[2] in ('call:thread_end', 'call:thread_end_on_sleep'):
            tn = plan[ev[3]]['tname']
            if tn in started and tn not in ended:
                ended[tn] = i
                if ev[2] == 'call:thread_end_on_sleep':
                    # the thread went away because the RUNNER slept.  If nothing of the world
                    # happens between that and the end of the test's bracket, the runner slept
                    # after the test was over: the thread was still running when the test ended
                    for j in range(i + 1, len(events)):
                        if events[j][1] == 'fault':
                            continue
                        if events[j][1] in ('test.ran', 'test.debugged'):
                            ended[tn] = j + 0.5
                        break
    out = []
    shadow = {}   # (tid, repr) -> kind of the thread that held the same ident at test start
    for oc in occs:
        if oc['open']:
            continue
        lo, hi = oc['index'], oc['end_index']
        # the threads alive when the test started (the runner's snapshot), by simulated ident
        at_start = {}
        for tn, si in started.items():
            if (si < lo or (tn in pre_test and si < hi)) and not (tn in ended and ended[tn] < lo):
                at_start[tw.reg[tn]['sim']] = tw.reg[tn]['kind']
        leaked = []
        for tn, si in started.items():
            # (a thread started by a layer's testSetUp exists before the test starts: the runner
            # takes its snapshot after those hooks; one started by a testTearDown hook counts)
            if lo < si < hi and tn not in pre_test and not (tn in ended and ended[tn] < hi):
                rec = tw.reg[tn]
                name = (rec['name'] or tn) if rec['kind'] == 'threading' \
                    else 'Dummy-%d' % rec['sim']
                for at, newname in renames.get(tn, []):
                    if at < hi:
                        name = newname      # the name it has when the test ends
                if any(p.match(name) for p in ign):
                    continue
                # (once it is known to threading it is shown as a thread object)
                rp = thread_repr(rec, known=(tn in poked and poked[tn] < hi))
                leaked.append(rp)
                if rec['sim'] in at_start:
                    shadow[(oc['tid'], rp)] = at_start[rec['sim']]
        if leaked:
            out.append((oc['tid'], sorted(leaked)))
    return out, shadow


def thread_repr(rec, known=False):
    if rec['kind'] == 'threading' or known:
        return '<Thread %s>' % rec['tname']
    return 'DummyThread %d, started, daemon' % rec['sim']


def run(spec, ctx):
    import sys
    core.prepare()
    TS = sys.modules['zope.testrunner.threadsupport']
    src = W.materialise(spec['world'], ctx.scratch)
    m = W.Model(spec['world'])
    rng = random.Random(spec['seed'] * 7919 + 13)
    tw = threadsim.ThreadWorld(rng, spec['knobs'].get('p_reuse', 0.5))
    old = TS.current_frames, TS.threading, TS.sys
    TS.current_frames = tw.current_frames
    TS.threading = threadsim.ThreadingSeam(tw)
    TS.sys = threadsim.SysSeam(tw)
    def thread_start(e):
        tw.start(e)
        if e.get('end_on_sleep'):
            # a thread about to end by itself (a Timer that fires, a worker told to stop but not
            # joined): it is gone as soon as the main thread sleeps - which the runner has no
            # reason to do between a test's end and its leak report
            idx = [i for i, x in enumerate(spec['plan'])
                   if x.get('fn') == 'thread_start' and x.get('tname') == e['tname']][0]
            clock = core.CURRENT_ENV.clock
            if not hasattr(clock, 'sleep_hooks'):
                clock.sleep_hooks = []

            def hook(dt):
                clock.sleep_hooks.remove(hook)
                rec = tw.reg.get(e['tname'])
                if rec is not None and rec['alive']:
                    simrt.rt.emit([0, 'fault', 'call:thread_end_on_sleep', idx, 0])
                    tw.end(e)
            clock.sleep_hooks.append(hook)
    calls = {'thread_start': thread_start, 'thread_end': tw.end, 'thread_poke': tw.poke,
             'thread_rename': tw.rename}
    orig_install = simrt.install

    def install(*a, **kw):
        rt = orig_install(*a, **kw)
        rt.extra['calls'] = calls
        return rt
    simrt.install = install
    try:
        if spec.get('earlier_run_ignores'):
            pre = core.execute(spec, W.argv(dict(spec['opt'], list=True), src) +
                               ['--ignore-new-thread=%s' % x for x in spec['earlier_run_ignores']],
                               label='earlier-run')
            if pre.raised:
                raise core.HarnessError('the earlier (listing) run failed: %r' % (pre.raised,))
        res = core.execute(spec, W.argv(spec['opt'], src))
    finally:
        simrt.install = orig_install
        TS.current_frames, TS.threading, TS.sys = old
        tw.end_all()
    viols = []
    sid = {d['tid']: d['sid'] for d in m.discover()}
    want, shadow = expected_reports(spec, res, tw)
    want = [(sid[t], r) for t, r in want]
    shadow = {(sid[t], r): k for (t, r), k in shadow.items()}
    got = []
    for mm in BLOCK_RE.finditer(res.text):
        reprs = sorted(x.strip() for x in re.split(r', (?=<Thread|DummyThread)', mm.group(2)))
        got.append((mm.group(1), reprs))
    if res.raised or res.hang:
        viols.append(C.viol('C19/run-aborted/%s' % _ws.frames_sig(res.raised),
                            repr(res.raised or res.hang)))
    elif got != want:
        wpairs = [(s_, r) for s_, rs in want for r in rs]
        gpairs = [(s_, r) for s_, rs in got for r in rs]
        missing = list(wpairs)
        extra = []
        for g in gpairs:
            if g in missing:
                missing.remove(g)
            else:
                extra.append(g)
        by_repr = {thread_repr(rec): rec for rec in tw.reg.values()}
        by_repr.update({thread_repr(rec, True): rec for rec in tw.reg.values()})
        detail = 'expected reports %r, runner printed %r; thread ops %r' % (want, got, tw.log)
        sigs = set()
        for s_, r in missing:
            rec = by_repr.get(r)
            if rec is not None and (s_, r) in shadow:
                # its ident is that of a thread that was alive when the test started
                sigs.add('C19/leak-not-reported/recycled-ident/new=%s,old=%s'
                         % (rec['kind'], shadow[(s_, r)]))
            else:
                sigs.add('C19/leak-not-reported/fresh-ident')
        if extra:
            sigs.add('C19/reported-but-not-leaked')
        if not sigs:
            sigs.add('C19/report-order-differs')
        for sg in sorted(sigs):
            viols.append(C.viol(sg, detail))
    nt = bool(want) or tw.reused > 0
    out = _ws.std_out(spec, ctx, [res], viols,
                      {'threads_started': len(tw.reg), 'idents_recycled': tw.reused,
                       'expected_leak_reports': len(want),
                       'lowlevel_threads': sum(1 for r in tw.reg.values()
                                               if r['kind'] == 'lowlevel')},
                      nontrivial=nt)
    return out
