"""C03 - exactly the selected tests run, once each, and every mode agrees on them."""
import copy
import random

from .. import common as C
from .. import core
from .. import truth as TR
from .. import world as W
from . import _ws

ID = 'C03'
TIERS = {'quick': {'seeds': 4500, 'seconds': 45, 'determinism': 32},
         'thorough': {'seconds': 900, 'determinism': 256, 'minimise_s': 120}}
RULE = ('fault-free worlds with suites nested to depth 4, layer/level declarations at any depth; '
        'option vectors over -t/-m/--layer (positive, negated, mixed), --at-level/--all/'
        '--only-level, -u/-f, --repeat, --shuffle-seed; each spec is executed as --list-tests, '
        'sequentially, with -j N under a seeded schedule and (when a layer cannot be torn down) '
        'resumed in children. Oracle: executed multiset (test, layer, iteration) over ALL pids == '
        'reference selection x repeat, each test in exactly one pid whose layer is its own; '
        '--list-tests == per-layer order of the sequential run and runs no test/layer code. The '
        'reference model embeds the pattern (C08) and level/nearest-declaration (C09) semantics. '
        'distinct = digest of hook sequences + option keys; non-trivial = a filter removed '
        'something or children ran')
RULE += (' One spec in seven gives overlapping search directories through -s (a package and its sub-package).')
RULE += (' ' + "Later additions: one spec in eight injects a spawn failure for one layer (only that layer's tests are excused); command-line use (sys.argv read by the runner) with a test that changes sys.argv in place before layers are resumed.")
T_FRAGS = ['test_a', 'test_b', 'test_c', 'TC0', 'TC1', 'test_m0', 'test_m1', r'TC[01]\.test_a',
           '(?i)TEST_A', '(?i)tc1', r'(test_)a.*\1a', r'(?P<n>TC0).*(?P=n)',
           '^test_[ab] ', r'test_d\)$', '.', 'nomatch', 'm0.TC1']
L_FRAGS = ['L0', 'L1', 'L2', 'L[12]$', 'UnitTests', 'layers', 'L3$', 'nomatch', '.']


def pats(rng, frags):
    n = rng.choice([1, 1, 2, 3])
    out = []
    for _ in range(n):
        f = rng.choice(frags)
        if rng.random() < 0.3:
            f = '!' + f
        out.append(f)
    return out


def gen(seed):
    rng = random.Random(seed)
    p = W.profile(p_level=0.4, p_suite_tree=0.6, p_suite_layer=0.4, p_deco_skip=0.05,
                  p_deco_xfail=0.0, p_subtests=0.05, max_layers=4, max_total_tests=14)
    world = W.gen_world(rng, p)
    m = W.Model(world)
    opt = {'v': rng.choice([0, 1, 2])}
    if rng.random() < 0.45:
        opt['t'] = pats(rng, T_FRAGS)
    if rng.random() < 0.2:
        opt['m'] = pats(rng, ['test_m0', 'test_m1', 'tests', 'nomatch', 'm[01]$'])
    if rng.random() < 0.15:
        # the deprecated positional filters, with or without a '--' in front
        opt['positional'] = [rng.choice(['.', 'test_m0', 'tests', 'm[01]$', '!test_m1'])]
        if rng.random() < 0.6:
            opt['positional'].append(rng.choice(['test_a', 'TC0', '!test_b', '.']))
        if rng.random() < 0.5:
            opt['dashdash'] = True
    if rng.random() < 0.35:
        # (also the world's own layer names - which may be prefixes of each other - whole,
        # anchored and cut short)
        own = [L['name'] for L in world['layers']]
        frags = L_FRAGS + own + [n + '$' for n in own] + [r'\.' + n[:2] for n in own]
        opt['layer'] = pats(rng, frags)
    r = rng.random()
    if r < 0.25:
        opt['at_level'] = rng.choice([0, 1, 2, 3, -1])
    elif r < 0.35:
        opt['all'] = True
    elif r < 0.5:
        opt['only_level'] = rng.choice([0, 1, 2, 3])
    if rng.random() < 0.12:
        opt['unit'] = True
    if rng.random() < 0.12:
        opt['non_unit'] = True
    if rng.random() < 0.2:
        opt['repeat'] = rng.randint(2, 3)
    if rng.random() < 0.25:
        opt['shuffle_seed'] = rng.randint(0, 9999)
    plan = []
    if rng.random() < 0.25:
        cands = [L['name'] for L in world['layers'] if m.has_hook(L['name'], 'tearDown')]
        if cands:
            plan.append({'site': 'layer.tearDown', 'ident': rng.choice(cands), 'a': 'raise',
                         'exc': 'NotImplementedError'})
    _ws.gen_relpath(rng, world, m.discover(), opt, plan, 0.12)
    if seed % 8 == 6 and plan and plan[0].get('exc') == 'NotImplementedError':
        # command-line use + a test that leaves sys.argv changed in place before later layers
        # are resumed in subprocesses: the children must get the ORIGINAL arguments
        srng = random.Random(seed ^ 0xA26)
        tests = [d for d in m.discover() if C.test_phases(d) and not d['t'].get('doctest')]
        if tests:
            d = srng.choice(tests)
            plan.append(C.fault_entry(d, srng.choice(C.test_phases(d)),
                                      {'a': 'argv_append',
                                       'args': srng.choice([['-t', 'nomatch_xyz'], ['-m', 'nomatch'],
                                                            ['--layer', 'nomatch'], ['!.']])}))
    if seed % 8 == 5:
        # one layer's subprocess cannot be started (EAGAIN, ENOMEM): every OTHER selected test
        # still runs exactly once
        srng = random.Random(seed ^ 0xC03)
        names = [m.full(L['name']) for L in world['layers']] + [W.UNIT]
        plan.append({'site': 'channel', 'ident': srng.choice(names), 'a': 'spawn_fail',
                     'errno': srng.choice(['EAGAIN', 'ENOMEM']), 'exc': 'OSError'})
    if seed % 7 == 3 and not opt.get('relpath'):
        # search directories that overlap: a package and one of its sub-packages given with
        # -s (in either order, or the same one twice) - every test still exactly once
        srng = random.Random(seed ^ 0x5EA)
        opt['package'] = srng.choice([['wpkg', 'wpkg.tests'], ['wpkg.tests', 'wpkg'],
                                      ['wpkg.tests', 'wpkg.tests'], ['wpkg'], ['wpkg.tests']])
    knobs = {**({'defaults_split': rng.randint(0, 99)} if rng.random() < 0.3 else {}),
             'pipe_capacity': rng.choice([64, 4096])}
    if any(e['a'] == 'argv_append' for e in plan):
        knobs['argv_from_sys'] = True
    return {'property': ID, 'seed': seed, 'world': world, 'plan': plan, 'opt': opt,
            'sched': {'prng': seed}, 'knobs': knobs, 'j': rng.randint(2, 4)}


def executed(T):
    out = {}
    for o in T.occs:
        out.setdefault((o['tid'], o['occ']), []).append((o['pid'], o['layer']))
    return out


def check_exec(m, spec, opt, res, T, mode):
    viols = []
    if res.raised or res.hang:
        return [C.viol('C03/run-aborted/%s/%s' % (mode, _ws.frames_sig(res.raised)),
                       repr(res.raised or res.hang))]
    sel = _ws.selected(m, dict(spec, opt=opt), T)
    repeat = opt.get('repeat') or 1
    want = {}
    for lf, tests in sel.items():
        for d in tests:
            for it in range(repeat):
                want[(d['tid'], it)] = m.short(lf)
    got = executed(T)
    child_layer = {c['simpid']: c['layer'] for c in res.children}
    for key, where in sorted(got.items()):
        if key not in want:
            viols.append(C.viol('C03/unselected-test-ran/' + mode,
                                '%s iteration %d ran (pid %r) but is not selected by %r'
                                % (key[0], key[1], where, opt)))
            break
        if len(where) > 1:
            viols.append(C.viol('C03/test-ran-more-than-once/' + mode,
                                '%s iteration %d ran %d times: %r' % (key[0], key[1],
                                                                      len(where), where)))
            break
        pid, lay = where[0]
        if pid != 0 and child_layer.get(pid) != m.full(lay):
            viols.append(C.viol('C03/ran-under-foreign-layer/' + mode,
                                '%s ran in the child for %r' % (key[0], child_layer.get(pid))))
            break
    # (tests of a layer whose subprocess could not be started - injected - cannot run)
    unspawned = {m.short(x[1]) for x in res.sched['log'] if x[0] == 'spawn-fail'}
    missing = sorted(k for k in want if k not in got and want[k] not in unspawned)
    if missing:
        viols.append(C.viol('C03/selected-test-not-run/' + mode,
                            'selected by %r but never ran: %r' % (opt, missing[:6])))
    return viols


def run(spec, ctx):
    src = W.materialise(spec['world'], ctx.scratch)
    m = W.Model(spec['world'])
    opt = spec['opt']
    results = []
    viols = []
    # sequential (possibly resumed in children when a layer cannot be torn down)
    seq = core.execute(spec, W.argv(opt, src), label='sequential')
    Ts = TR.Truth(m, seq.trace)
    results.append(seq)
    viols += check_exec(m, spec, opt, seq, Ts, 'resumed' if seq.children else 'sequential')
    # parallel
    optj = dict(opt, j=spec.get('j', 2))
    par = core.execute(dict(spec, opt=optj), W.argv(optj, src), label='parallel')
    Tp = TR.Truth(m, par.trace)
    results.append(par)
    viols += check_exec(m, spec, optj, par, Tp, 'parallel')
    # listing
    optl = dict(opt, list=True)
    lst = core.execute(dict(spec, opt=optl), W.argv(optl, src), label='list')
    results.append(lst)
    if lst.raised:
        viols.append(C.viol('C03/list-aborted/%s' % _ws.frames_sig(lst.raised), repr(lst.raised)))
    else:
        ran_code = [ev for ev in lst.trace if ev[1].startswith(('layer.', 'test.'))]
        if ran_code:
            viols.append(C.viol('C03/list-ran-code', '--list-tests executed %r' % (ran_code[:4],)))
        groups = [(l, t) for l, t in C.parse_listing(lst.text) if l != '.EmptyLayer']
        sel = _ws.selected(m, spec, TR.Truth(m, lst.trace))
        want_sets = {lf: sorted(d['sid'] for d in tests) for lf, tests in sel.items()}
        got_sets = {l: sorted(t) for l, t in groups}
        if want_sets != got_sets:
            viols.append(C.viol('C03/list-set-differs',
                                'listed %r, selection is %r' % (got_sets, want_sets)))
        elif not seq.raised and not seq.hang:
            # order: per layer, first iteration of the run (any pid)
            sid = {d['tid']: d['sid'] for d in m.discover()}
            order = {}
            for o in Ts.occs:
                if o['occ'] == 0:
                    order.setdefault(m.full(o['layer']), []).append(sid[o['tid']])
            for l, t in groups:
                if order.get(l) is not None and order[l] != t:
                    viols.append(C.viol('C03/list-order-differs',
                                        'layer %s listed as %r but ran as %r' % (l, t, order[l])))
                    break
    nsel = sum(len(v) for v in _ws.selected(m, spec, Ts).values())
    nall = len(m.discover())
    return _ws.std_out(spec, ctx, results, viols,
                       {'selected_tests': nsel, 'filtered_out': nall - nsel,
                        'resumed_runs': int(bool(seq.children))},
                       nontrivial=(nsel < nall) or bool(par.children))
