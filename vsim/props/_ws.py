"""World-sim family: shared generator and oracles for C01 C02 C04 C12 C13 C16 (and the world
halves of C03/C06/C07/C11)."""
import random
import re

from .. import common as C
from .. import core
from .. import truth as TR
from .. import world as W

WEIRD = ['[line\u2028sep]', '[vt\x0bx]', '[ff\x0cx]', '[nel\x85x]', '[fs\x1cx]', '[a\nb]',
         '[tab\there]', '[ünï 中]', '[' + 'y' * 400 + ']', '[ps\u2029x]', '[1 2 3 4]', '[cr\rx]']
LAYER_EXC = ['ValueError', 'KeyError', 'CustomError', 'AssertionError', 'TypeError', 'OSError',
             'SkipTest', 'Unhashable', 'BadStr', 'AttributeError', 'RuntimeError']


# ---------------------------------------------------------------------------------------
# generation


def gen_layer_faults(rng, world, n, kinds=('setUp', 'tearDown', 'nie'), p_occ=0.5):
    m = W.Model(world)
    plan = []
    if n and 'nie' in kinds and 'tearDown' in kinds and rng.random() < 0.25:
        # two tear-downs of one pass: the derived layer's fails, its base cannot be torn down
        pairs = [(d['name'], b) for d in world['layers'] for b in sorted(m.closure(d['name']))
                 if b != d['name'] and m.has_hook(d['name'], 'tearDown')
                 and m.has_hook(b, 'tearDown')]
        if pairs:
            d_, b_ = rng.choice(pairs)
            plan.append({'site': 'layer.tearDown', 'ident': d_, 'a': 'raise',
                         'exc': rng.choice(LAYER_EXC[:6])})
            plan.append({'site': 'layer.tearDown', 'ident': b_, 'a': 'raise',
                         'exc': 'NotImplementedError'})
    for _ in range(n):
        k = rng.choice(kinds)
        hook = 'setUp' if k == 'setUp' else 'tearDown'
        cands = [L['name'] for L in world['layers'] if m.has_hook(L['name'], hook)]
        if not cands:
            continue
        L = rng.choice(cands)
        exc = 'NotImplementedError' if k == 'nie' else rng.choice(LAYER_EXC)
        e = {'site': 'layer.' + hook, 'ident': L, 'a': 'raise', 'exc': exc}
        if rng.random() < p_occ:
            e['occ'] = rng.choice([0, 0, 1])
        plan.append(e)
    return plan


def gen_writes(rng, disc, n, start_index=0, streams=None):
    """Token writes at test phases.  '%o' in the text is replaced by the hook occurrence."""
    streams = streams or ['stdout', 'stderr', 'stdout.buffer', 'stderr.buffer', 'print']
    plan = []
    # (doctest examples must not print: their output is compared by doctest itself)
    cands = [d for d in disc if C.test_phases(d) and not d['t'].get('doctest')]
    if not cands:
        return plan
    for k in range(n):
        d = rng.choice(cands)
        ph = rng.choice(C.test_phases(d))
        tok = '@@T%d.%%o@@' % (start_index + k)
        if rng.random() < 0.6:
            tok += '\n'
        e = {'a': 'write', 'stream': rng.choice(streams), 'text': tok}
        if e['stream'].endswith('.buffer') and rng.random() < 0.3:
            e['hex'] = rng.choice(['fffe', 'c328', 'e282', '80', 'e9e80a'])
        plan.append(C.fault_entry(d, ph, e))
    return plan


def gen_relpath(rng, world, disc, opt, plan, p):
    """A relative --path, and something in the world that changes the working directory for
    good (a test, or a test module at import time): children must still find the tests."""
    if rng.random() >= p:
        return
    opt['relpath'] = True
    cands = [d for d in disc if C.test_phases(d) and not d['t'].get('doctest')]
    if cands and rng.random() < 0.6:
        d = rng.choice(cands)
        plan.append(C.fault_entry(d, rng.choice(C.test_phases(d)), {'a': 'chdir', 'to': '/'}))
    elif world['modules']:
        plan.append({'site': 'module.import',
                     'ident': '%s.tests.%s' % (W.PKG, rng.choice(world['modules'])['name']),
                     'a': 'chdir', 'to': '/'})


def order_plan(plan):
    """writes must come before raises at the same site (a raise ends the hook)."""
    return [e for e in plan if e['a'] == 'write'] + [e for e in plan if e['a'] != 'write']


def add_binary_stdout_in_resumed_layers(spec, seed):
    """Tests of layers that are resumed in subprocesses write bytes to their stdout that are not
    valid UTF-8 (binary data, Latin-1 text; whole lines - the summary parsers of the oracles are
    line based): neither the verdict nor the totals depend on them."""
    world = spec['world']
    m = W.Model(world)
    srng = random.Random(seed ^ 0xB17E5)
    cands = [L['name'] for L in world['layers'] if m.has_hook(L['name'], 'tearDown')]
    disc = [d for d in m.discover() if C.test_phases(d) and not d['t'].get('doctest')]
    if not (cands and disc) or spec['opt'].get('j'):
        return
    if not any(e.get('exc') == 'NotImplementedError' for e in spec['plan']):
        spec['plan'].append({'site': 'layer.tearDown', 'ident': srng.choice(cands),
                             'a': 'raise', 'exc': 'NotImplementedError', 'where': 'parent'})
    writes = []
    for d in srng.sample(disc, min(3, len(disc))):
        writes.append(C.fault_entry(d, srng.choice(C.test_phases(d)),
                                    {'a': 'write', 'stream': 'stdout.buffer', 'text': 'caf',
                                     'hex': srng.choice(['e9206e61ef76650a', 'fffe0080810a',
                                                         'c3280a', 'e2820a'])}))
    spec['plan'] = writes + spec['plan']


def gen_ws(seed, pid, bias):
    rng = random.Random(seed)
    p = W.profile(**bias.get('profile', {}))
    world = W.gen_world(rng, p)
    if rng.random() < bias.get('p_weird_ids', 0.0):
        # unusual spellings of test ids (see C07), on tests that fail so the names are listed
        cs = [c for m_ in world['modules'] for c in m_['classes']]
        for _ in range(rng.randint(1, 2)):
            t = rng.choice(rng.choice(cs)['tests'])
            if not t.get('deco'):
                t['idx'] = rng.choice(WEIRD)
                t['must_fail'] = rng.choice(['AssertionError', 'ValueError'])
    if bias.get('p_multicount') and rng.random() < bias['p_multicount']:
        # a test object whose countTestCases() is not 1 (the anchored testsRun adjustment)
        cs = [c for m_ in world['modules'] for c in m_['classes']]
        for _ in range(rng.randint(1, 2)):
            rng.choice(rng.choice(cs)['tests'])['count'] = rng.randint(2, 4)
    if rng.random() < bias.get('p_c_raise', 0.0) and world['layers']:
        # a layer hook that raises at the call itself (see simrt.populate_layers)
        L = rng.choice(world['layers'])
        h = rng.choice(['setUp', 'setUp', 'tearDown'])
        if h not in L['hooks']:
            L['c_raise'] = [h]
    m = W.Model(world)
    disc = m.discover()
    plan = []
    for d in disc:
        if d['t'].get('must_fail'):
            plan.append(C.fault_entry(d, 'body', {'a': 'raise', 'exc': d['t']['must_fail']}))
    nt = rng.choice(bias.get('n_test_faults', [0, 1, 1, 2, 3]))
    plan += C.gen_test_faults(rng, disc, nt, excs=bias.get('test_excs', C.TEST_EXC_ALL),
                              p_occ=bias.get('p_occ', 0.25))
    nl = rng.choice(bias.get('n_layer_faults', [0, 0, 1, 2]))
    plan += gen_layer_faults(rng, world, nl, kinds=bias.get('layer_kinds',
                                                            ('setUp', 'tearDown', 'nie')))
    if rng.random() < bias.get('p_import_fault', 0.0):
        mod = rng.choice(world['modules'])
        site = rng.choice(['module.import', 'module.import', 'module.test_suite'])
        if site == 'module.test_suite' and mod.get('suite') is None:
            site = 'module.import'
        plan.append({'site': site, 'ident': '%s.tests.%s' % (W.PKG, mod['name']), 'a': 'raise',
                     'exc': rng.choice(['ValueError', 'KeyError', 'TypeError', 'SystemExit'])})
    nw = rng.choice(bias.get('n_writes', [0]))
    plan += gen_writes(rng, disc, nw, start_index=100, streams=bias.get('write_streams'))
    plan = order_plan(plan)
    opt = {'v': rng.choice(bias.get('v', [0, 1, 1, 2, 3]))}
    if rng.random() < bias.get('p_buffer', 0.2):
        opt['buffer'] = True
    if rng.random() < bias.get('p_x', 0.0):
        opt['x'] = True
    if rng.random() < bias.get('p_repeat', 0.2):
        opt['repeat'] = rng.randint(2, 3)
    if rng.random() < bias.get('p_shuffle', 0.2):
        opt['shuffle_seed'] = rng.randint(0, 9999)
    if rng.random() < bias.get('p_j', 0.25):
        opt['j'] = rng.randint(2, 4)
    r_ = rng.random()
    if r_ < bias.get('p_uf', 0.06):
        opt[rng.choice(['unit', 'non_unit'])] = True
    elif r_ < bias.get('p_uf', 0.06) + bias.get('p_levels', 0.08):
        # levels (only meaningful in worlds that declare some, see p_level of the profile)
        k = rng.choice(['all', 'at_level', 'only_level'])
        opt[k] = True if k == 'all' else rng.choice([0, 1, 2, 3])
    if rng.random() < bias.get('p_t', 0.12):
        # a test filter (an import failure is no test: no pattern may filter it away)
        opt['t'] = rng.choice([['test_'], ['test_a', 'test_b'], ['TC0'], ['!test_c'],
                               ['TC', '!nomatch'], ['test_m0']])
    if rng.random() < bias.get('p_layer_opt', 0.1) and world['layers']:
        opt['layer'] = [rng.choice(world['layers'])['name'] + '$']
    if rng.random() < bias.get('p_progress', 0.05):
        opt['progress'] = True
    knobs = {}
    if rng.random() < 0.3:
        knobs['pipe_capacity'] = rng.choice([64, 512, 4096])
    if rng.random() < bias.get('p_defaults_split', 0.25):
        knobs['defaults_split'] = rng.randint(0, 99)
    if rng.random() < bias.get('p_color', 0.08):
        opt['color'] = True
    gen_relpath(rng, world, disc, opt, plan, bias.get('p_relpath', 0.06))
    if rng.random() < bias.get('p_xml', 0.06):
        opt['xml'] = True      # the XML report wrapper sits between the result and the formatter
    if rng.random() < bias.get('p_v4', 0.05):
        opt['v'] = 4
        opt['gc_after_test'] = True
    return {'property': pid, 'seed': seed, 'world': world, 'plan': plan, 'opt': opt,
            'sched': {'prng': seed}, 'knobs': knobs}


# ---------------------------------------------------------------------------------------
# helpers


def selected(m, spec, T):
    """Expected selection (per layer full name) given the modules that failed to import."""
    failed = set(T.import_failures.get(0, []))
    return m.select(spec['opt'], import_failed=failed)


def host_pid(res, m, lname):
    """The process in which layer `lname`'s tests are due: its child if one was spawned."""
    full = m.full(lname)
    pids = [c['simpid'] for c in res.children if c['layer'] == full]
    return pids[-1] if pids else 0


def unrun_selected(m, spec, res, T):
    """Selected tests (x iterations) that never ran, and are not excused by a failed layer
    set-up in the process that hosted their layer."""
    sel = selected(m, spec, T)
    repeat = spec['opt'].get('repeat') or 1
    ran = {}
    for o in T.occs:
        ran[o['tid']] = ran.get(o['tid'], 0) + 1
    missing = []
    # every group of tests that did not run needs a failed set-up attempt OF ITS OWN (the runner
    # tries again for every layer it runs: a base that failed for one group may work for the
    # next): maximum matching between unrun groups and failed set-up events of their stacks
    pool = [(p, l) for p, l, h, _ in T.layer_failures if h == 'setUp']
    groups = []      # (lf, tests, host pid, candidates in pool)
    for lf, tests in sorted(sel.items()):
        lname = m.short(lf)
        hp = host_pid(res, m, lname)
        clos = m.closure(lname)
        # (a set-up hook that fails at the call leaves no trace event: known from the world)
        if any('setUp' in (m.layers[l].get('c_raise') or []) for l in clos):
            continue
        if all(ran.get(d['tid'], 0) >= repeat for d in tests):
            continue
        groups.append((lf, tests, hp, [i for i, (p, l) in enumerate(pool)
                                       if p == hp and l in clos]))
    match = {}

    def augment(j, seen):
        for i in groups[j][3]:
            if i in seen:
                continue
            seen.add(i)
            if i not in match or augment(match[i], seen):
                match[i] = j
                return True
        return False
    for j in range(len(groups)):
        augment(j, set())
    excused = set(match.values())
    for j, (lf, tests, hp, _) in enumerate(groups):
        if j in excused:
            continue
        for d in tests:
            if ran.get(d['tid'], 0) < repeat:
                missing.append((d['tid'], lf, hp, ran.get(d['tid'], 0)))
    return missing


def frames_sig(raised):
    """Structured location of an escaped exception: last frame inside zope/testrunner."""
    if not raised:
        return 'none'
    fn = re.findall(r'zope/testrunner/(\w+)\.py", line \d+, in (\w+)', raised[2])
    loc = '%s.%s' % fn[-1] if fn else 'outside'
    return '%s@%s' % (raised[0], loc)


# ---------------------------------------------------------------------------------------
# C01: layer stack automaton


def oracle_layers(m, res, T, only_leftover=False):
    viols = []
    disc = T.disc
    for pid, events in sorted(C.by_pid(res.trace).items()):
        active = []       # layers with both setUp and tearDown hooks: fully observable
        sticky = set()    # layers with setUp but no tearDown hook: set up at least once
        nie_seen = None
        n = len(events)
        for i, ev in enumerate(events):
            site, ident = ev[1], ev[2]
            nxt = events[i + 1] if i + 1 < n else None
            raised = None
            if nxt is not None and nxt[1] == 'fault' and nxt[2].startswith('raise:'):
                raised = nxt[2][6:]
            if site == 'layer.setUp':
                full_obs = m.has_hook(ident, 'tearDown')
                if only_leftover:
                    if not raised and full_obs and ident not in active:
                        active.append(ident)
                    continue
                if nie_seen:
                    viols.append(C.viol('C01/setUp-after-NotImplementedError',
                                        'pid %d: setUp(%s) after tearDown(%s) raised '
                                        'NotImplementedError' % (pid, ident, nie_seen)))
                if full_obs and ident in active:
                    viols.append(C.viol('C01/setUp-while-set-up',
                                        'pid %d: setUp(%s) while it is set up' % (pid, ident)))
                for b in sorted(m.closure(ident) - {ident}):
                    if m.has_hook(b, 'setUp') and b not in active and b not in sticky:
                        viols.append(C.viol('C01/setUp-before-base',
                                            'pid %d: setUp(%s) while base %s is not set up'
                                            % (pid, ident, b)))
                if not raised:
                    if full_obs:
                        if ident not in active:
                            active.append(ident)
                    else:
                        sticky.add(ident)
            elif site == 'layer.tearDown':
                obs = m.has_hook(ident, 'setUp')
                if not only_leftover:
                    if obs and ident not in active:
                        viols.append(C.viol('C01/tearDown-not-set-up',
                                            'pid %d: tearDown(%s) while it is not set up'
                                            % (pid, ident)))
                    for dlay in active:
                        if m.is_base(ident, dlay):
                            viols.append(C.viol('C01/tearDown-before-derived',
                                                'pid %d: tearDown(%s) while derived %s is still '
                                                'set up' % (pid, ident, dlay)))
                if ident in active:
                    active.remove(ident)
                if raised == 'NotImplementedError':
                    nie_seen = ident
            elif site == 'test.run' and not only_leftover:
                if nie_seen:
                    viols.append(C.viol('C01/test-after-NotImplementedError',
                                        'pid %d: test %s after tearDown(%s) raised '
                                        'NotImplementedError' % (pid, ident, nie_seen)))
                d = disc.get(ident)
                if d is None:
                    continue
                clos = m.closure(d['layer'])
                need_full = {l for l in clos
                             if m.has_hook(l, 'setUp') and m.has_hook(l, 'tearDown')}
                need_sticky = {l for l in clos
                               if m.has_hook(l, 'setUp') and not m.has_hook(l, 'tearDown')}
                act = set(active)
                if act - need_full:
                    viols.append(C.viol('C01/extra-layer-at-test',
                                        'pid %d: test %s (layer %s) ran with %r set up, stack is '
                                        '%r' % (pid, ident, d['layer'], sorted(act),
                                                sorted(clos))))
                if (need_full - act) or (need_sticky - sticky):
                    viols.append(C.viol('C01/missing-layer-at-test',
                                        'pid %d: test %s (layer %s) ran with %r set up, stack is '
                                        '%r' % (pid, ident, d['layer'],
                                                sorted(act | sticky), sorted(clos))))
        if active:
            viols.append(C.viol('C01/not-torn-down',
                                'pid %d ended with %r still set up' % (pid, active)))
    if only_leftover:
        return [v for v in viols if v['sig'] == 'C01/not-torn-down']
    # children host exactly one layer
    for c in res.children:
        ls = {o['layer'] for o in T.occs if o['pid'] == c['simpid']}
        if len(ls) > 1 or (ls and m.full(list(ls)[0]) != c['layer']):
            viols.append(C.viol('C01/child-ran-foreign-layer',
                                'child %d for %s ran tests of %r' % (c['simpid'], c['layer'],
                                                                     sorted(map(str, ls)))))
    return viols


# ---------------------------------------------------------------------------------------
# C04: containment


def oracle_contain(m, spec, res, T):
    viols = []
    mode = 'buffer' if spec['opt'].get('buffer') else 'plain'
    if res.hang:
        viols.append(C.viol('C04/hang', res.hang[:300]))
        return viols
    if res.raised:
        viols.append(C.viol('C04/escaped/%s/%s' % (frames_sig(res.raised), mode),
                            'run_internal raised %s: %s\n%s' % res.raised))
        return viols
    if res.sched['thread_excs']:
        viols.append(C.viol('C04/worker-thread-died/%s' % res.sched['thread_excs'][0][1],
                            repr(res.sched['thread_excs'])))
    if not spec['opt'].get('x'):
        miss = unrun_selected(m, spec, res, T)
        if miss:
            viols.append(C.viol('C04/selected-test-not-run',
                                'never ran although its layers could be set up: %r' % (miss[:5],)))
    viols += oracle_layers(m, res, T, only_leftover=True)
    groups = {(o['pid'], o['layer'], o['occ']) for o in T.occs}
    # with -j N the parent runs the empty pseudo layer itself: one summary per iteration
    expected = len(groups) + ((spec['opt'].get('repeat') or 1)
                              if (spec['opt'].get('j') or 1) > 1 else 0)
    got = len(C.RAN_RE.findall(res.text))
    if got != expected and not spec['opt'].get('x'):
        viols.append(C.viol('C04/summary-lines',
                            'expected %d "Ran ..." summary lines, found %d' % (expected, got)))
    sel = selected(m, spec, T)
    if len(sel) >= 2 and len(C.TOTAL_RE.findall(res.text)) != 1:
        viols.append(C.viol('C04/no-totals', 'no single Total: line although %d layers were '
                            'selected' % len(sel)))
    return viols


# ---------------------------------------------------------------------------------------
# C16: stop on error


def oracle_stop(m, spec, res, T):
    viols = []
    opt = spec['opt']
    parallel = (opt.get('j') or 1) > 1
    for pid, events in sorted(C.by_pid(res.trace).items()):
        first_bad = None
        kind = None
        for o in T.occs:
            if o['pid'] == pid and o['bad'] and not o['open']:
                if first_bad is None or o['end_index'] < first_bad:
                    first_bad = o['end_index']
                    kinds = [k for k, _ in o['events'] if k in TR.BAD]
                    subj = [s for k, s in o['events'] if k in TR.BAD][0]
                    kind = kinds[0] + ('-subtest' if subj != 'test' else '')
        if pid == 0 and not parallel:
            last = None
            for i, ev in enumerate(events):
                if ev[1] == 'fault':
                    # (a failing layer tearDown is not among the bad outcomes the statement
                    # lists: it neither has to stop the run nor may it keep it from ending well)
                    if ev[2].startswith('raise:') and last is not None and \
                            last[1] == 'layer.setUp':
                        if first_bad is None or i < first_bad:
                            first_bad = i
                            kind = 'layer-' + last[1][6:]
                        break
                else:
                    last = ev
        if first_bad is None:
            continue
        rep = 'repeat' if (opt.get('repeat') or 1) > 1 else 'once'
        for ev in events[first_bad + 1:]:
            if ev[1] == 'test.run':
                viols.append(C.viol('C16/test-started-after-first-bad/%s/%s' % (kind, rep),
                                    'pid %d: %s started after the first bad outcome (%s)'
                                    % (pid, ev[2], kind)))
                break
            if ev[1] == 'layer.setUp' and pid == 0 and not parallel:
                viols.append(C.viol('C16/layer-set-up-after-first-bad/%s/%s' % (kind, rep),
                                    'pid 0: setUp(%s) after the first bad outcome (%s)'
                                    % (ev[2], kind)))
                break
    if not parallel and res.children and opt.get('x'):
        # a sequential run whose later layers are resumed in subprocesses (one at a time, in
        # order): once the parent or one of the children has seen its first bad outcome no
        # further layer may be set up - in whichever process
        byp = C.by_pid(res.trace)
        bad_pid = None
        for pid in sorted(byp):
            has_bad = any(o['pid'] == pid and o['bad'] for o in T.occs) or \
                any(p == pid and h == 'setUp' for p, l, h, x in T.layer_failures)
            if has_bad:
                bad_pid = pid
                break
        if bad_pid is not None:
            for pid in sorted(byp):
                if pid > bad_pid and any(ev[1] in ('layer.setUp', 'test.run') for ev in byp[pid]):
                    viols.append(C.viol(
                        'C16/layer-set-up-after-first-bad/resumed',
                        'sequential run with resumed layers: process %d had the first bad '
                        'outcome, yet the layer of process %d was still set up and run'
                        % (bad_pid, pid)))
                    break
    viols += [C.viol('C16/' + v['sig'][4:], v['msg'])
              for v in oracle_layers(m, res, T, only_leftover=True)]
    if res.raised:
        viols.append(C.viol('C16/escaped/%s' % frames_sig(res.raised),
                            'run_internal raised %s: %s\n%s' % res.raised))
    elif not res.hang:
        if T.anything_bad() and res.verdict is not True:
            viols.append(C.viol('C16/verdict-not-failed', 'bad outcome but verdict %r'
                                % (res.verdict,)))
        if T.occs and not C.RAN_RE.search(res.text):
            viols.append(C.viol('C16/no-summary', 'tests ran but no summary line'))
    return viols


# ---------------------------------------------------------------------------------------
# C13: buffered output attribution + stream identity

HEADER_RE = re.compile(r'^(?:Error|Failure) in test (.*)$', re.M)
TOKEN_RE = re.compile(r'@@T(\d+)\.(\d+)@@')


def oracle_buffer(m, spec, res, T):
    viols = []
    buffered = bool(spec['opt'].get('buffer'))
    mode = 'buffer' if buffered else 'plain'
    # stream identity, monitored by the hooks themselves (pid 0 only: children alias stderr)
    # (the world itself may put a stale stream back - 'reinstall_stdout': from then on the
    # streams are the world's doing until the runner has had its next chance to restore them,
    # i.e. until the end of the next test that starts afterwards)
    # A TestResult remembers the streams it finds when it is created (per layer and iteration):
    # a stale stream put back by a layer's testTearDown hook - after the runner's restore - is
    # undone by the next test of the SAME result; if a new result is created first, the stale
    # stream is what that one finds and nobody can know better (not judged from there on).
    stale = None
    last_site = None
    cur = None           # (layer, iteration) of the test started last
    stale_in = None

    def result_of(ev_):
        d_ = T.disc.get(ev_[2])
        return (d_['layer'] if d_ else None, ev_[3])
    stashed_in = None
    stash_orig = False
    last_flags = 3
    foreign_reinstall = False
    for ev in res.trace:
        if ev[0] != 0:
            continue
        if ev[1] == 'fault':
            if ev[2] == 'stash_stdout':
                stashed_in = cur
                # (after a result event of the test the original streams are installed: it is
                # those that get remembered then, not the capture streams)
                stash_orig = last_flags == 3
            if ev[2] == 'reinstall_stdout':
                if stashed_in != cur or stash_orig:
                    # the stream of ANOTHER result (layer, iteration): a foreign object
                    foreign_reinstall = True
                if stale != 'forever':
                    stale = 'pending'
                    stale_in = cur if last_site == 'layer.testTearDown' else None
            continue
        site = ev[1]
        last_site = site
        last_flags = ev[4]
        if site == 'test.run':
            cur = result_of(ev)
        if stale is not None:
            if stale == 'forever':
                continue
            if site == 'test.run':
                stale = 'started' if stale_in in (None, cur) else 'forever'
                continue
            if stale == 'started' and site in ('layer.testTearDown', 'test.ran'):
                stale = None
            else:
                continue
        check = site in ('layer.testSetUp', 'layer.testTearDown', 'layer.setUp',
                         'layer.tearDown', 'test.run', 'test.ran')
        if not buffered and site.startswith('test.'):
            check = True
        if check and ev[4] != 3:
            which = [] if ev[4] & 1 else ['stdout']
            which += [] if ev[4] & 2 else ['stderr']
            viols.append(C.viol('C13/stream-replaced/%s/%s' % (site, mode),
                                '%s(%s) saw replaced %s' % (site, ev[2], '+'.join(which))))
            break
    if any(ev[1] == 'fault' and ev[2] == 'nested_not_restored' for ev in res.trace):
        viols.append(C.viol('C13/streams-not-restored-after-run/nested/%s' % mode,
                            'after a nested in-process run (started by a test) sys.stdout/'
                            'sys.stderr were not the objects that run had found'))
    if not all(res.streams_restored) and stale is None:
        how = 'raised' if res.raised else 'returned'
        viols.append(C.viol('C13/streams-not-restored-after-run/%s/%s' % (mode, how),
                            'after the run sys.stdout/sys.stderr restored = %r'
                            % (res.streams_restored,)))
    if not buffered or res.raised:
        return viols
    if foreign_reinstall or \
            any(ev[1] == 'fault' and ev[2] == 'replace_stdout' for ev in res.trace):
        # a test pointed a std stream at an object of its own: what it wrote there afterwards is
        # its own business - only the identity of the streams between tests is judged
        return viols
    text = res.text
    # regions: header -> owner sid
    heads = [(mm.start(), mm.group(1)) for mm in HEADER_RE.finditer(text)]

    def owner_at(pos):
        own = None
        for st, name in heads:
            if st <= pos:
                own = name
            else:
                break
        if own is None:
            return None
        return re.sub(r' \(i=\d+\)$', '', own)

    # which tokens were written, by which occurrence
    written = {}
    truth_by = {(o['tid'], o['occ']): o for o in T.occs}
    plan = spec['plan']
    # (a test runs in exactly one process; children relay their output through the parent)
    for pid, evs in sorted(C.by_pid(res.trace).items()):
        occs, _ = C.occurrences(evs)
        cut = False      # a stale stream was put back by the world: what is written from
        for oc in occs:  # then on (this test and later ones) is not attributed
            last = None
            for ev in oc['events']:
                if ev[1] == 'fault' and ev[2] == 'reinstall_stdout':
                    cut = True
                if ev[1] == 'fault' and ev[2].startswith('write:') and last is not None:
                    if cut:
                        continue
                    e = plan[ev[3]]
                    tok = e['text'].replace('%o', str(last[3])).strip()
                    written[tok] = (oc['tid'], oc['occ'])
                elif ev[1] != 'fault':
                    last = ev
    positions = {}
    for mm in TOKEN_RE.finditer(text):
        positions.setdefault(mm.group(0), []).append(mm.start())
    for tok, key in sorted(written.items()):
        o = truth_by.get(key)
        if o is None or o['open']:
            continue
        kinds = [k for k, _ in o['events']]
        shown = any(k in ('failure', 'error', 'usuccess') for k in kinds)
        pos = positions.get(tok, [])
        if not shown:
            if pos:
                outcome = kinds[0] if kinds else 'none'
                # was the token written after the result event (tearDown/cleanup of a skip)?
                viols.append(C.viol('C13/output-of-non-failing-test-shown/%s' % outcome,
                                    'token %s of %s (events %r) appears in the output'
                                    % (tok, o['sid'], o['events'])))
            continue
        if not pos:
            viols.append(C.viol('C13/output-of-failing-test-lost',
                                'token %s of failing %s (events %r) is missing from the output'
                                % (tok, o['sid'], o['events'])))
            continue
        for p_ in pos:
            own = owner_at(p_)
            if own != o['sid']:
                viols.append(C.viol('C13/output-misattributed',
                                    'token %s of %s appears in the region of %r'
                                    % (tok, o['sid'], own)))
                break
    return viols


# ---------------------------------------------------------------------------------------
# C12: counts and lists


def oracle_counts(m, spec, res, T):
    viols = []
    if res.raised and res.raised[0] == 'KeyboardInterrupt' and \
            any(e.get('exc') == 'KeyboardInterrupt' for e in spec['plan']):
        # ^C (injected) ended the run with that exception: no totals are claimed, none judged
        return viols
    if res.raised or res.hang:
        viols.append(C.viol('C12/run-aborted/%s' % frames_sig(res.raised),
                            'no totals: run_internal raised %r' % (res.raised or res.hang,)))
        return viols
    opt = spec['opt']
    nimp = len(T.import_failures.get(0, []))
    # per-process, per-layer, per-iteration summaries, in order
    streams = {0: ''.join(t for tag, t in res.out)}
    child_text = {}
    for c, tape in zip(res.children, res.child_tapes):
        child_text[c['simpid']] = b''.join(p for t, p in tape if t == 'O').decode('utf-8',
                                                                                  'replace')
    for pid in T.pids:
        groups = []
        for o in T.occs:
            if o['pid'] == pid:
                k = (o['layer'], o['occ'])
                if k not in groups:
                    groups.append(k)
        if pid == 0:
            # the parent's own summaries: strip the relayed child blocks by counting
            own = [g for g in groups]
            text = streams[0]
            lines = C.RAN_RE.findall(text)
            nchild = sum(len(C.RAN_RE.findall(t)) for t in child_text.values())
            extra = 1 if (opt.get('j') or 1) > 1 else 0
            if res.children:
                continue   # parent summaries are interleaved with relayed ones: checked per child
            mine = lines
        else:
            mine = C.RAN_RE.findall(child_text.get(pid, ''))
            own = groups
        nimp_here = len(T.import_failures.get(pid, []))
        for k, (lay, occ) in enumerate(own):
            if k >= len(mine):
                break
            n, f, e, s = T.count(pid=pid, layer=lay, occ=occ)
            e += nimp_here
            got = tuple(int(x) for x in mine[k])
            if got != (n, f, e, s):
                field = ['tests', 'failures', 'errors', 'skipped'][
                    [i for i in range(4) if got[i] != (n, f, e, s)[i]][0]]
                viols.append(C.viol('C12/layer-summary/%s' % field,
                                    'pid %d layer %s iteration %d: printed %r, happened %r'
                                    % (pid, lay, occ, got, (n, f, e, s))))
                break
    # totals
    mt = C.TOTAL_RE.findall(res.text)
    n_last = 0
    repeat = opt.get('repeat') or 1
    # tests counted once (last iteration of each layer), events over all iterations
    seen_last = {}
    for o in T.occs:
        seen_last.setdefault((o['pid'], o['layer']), {}).setdefault(o['occ'], 0)
        seen_last[(o['pid'], o['layer'])][o['occ']] += o['d']['t'].get('count') or 1
    for k, d in seen_last.items():
        n_last += d[max(d)]
    _, f, e, s = T.count()
    e += len([1 for p_, l_, h_, x_ in T.layer_failures])
    e_total = e + nimp
    runner = res.runner or {}
    child_problem = any(not c['report_complete'] for c in res.children)
    if mt and not child_problem:
        got = tuple(int(x) for x in mt[-1])
        want = (n_last, f, e_total, s)
        if got != want:
            field = ['tests', 'failures', 'errors', 'skipped'][
                [i for i in range(4) if got[i] != want[i]][0]]
            mode = 'children' if res.children else 'inprocess'
            viols.append(C.viol('C12/totals/%s/%s' % (field, mode),
                                'Total line says %r, happened %r' % (got, want)))
    # lists of names
    if not child_problem:
        want_f = sorted(T.event_names(('failure', 'usuccess')))
        want_e = sorted(T.event_names(('error',)) +
                        ['Layer: %s.tearDown' % m.full(l)
                         for _, l, h, _ in T.layer_failures if h == 'tearDown'])
        got_f = sorted(runner.get('failures', []))
        got_e = sorted(runner.get('errors', []))
        # a failed set-up is listed under the layer that was being run (the failing hook
        # may be a base's): match every listed 'Layer: X.setUp' with one setUp failure of
        # a layer in X's stack
        pool = [l for _, l, h, _ in T.layer_failures if h == 'setUp']
        rest = []
        listed = []      # (name, indexes of pool entries it may stand for)
        for name in got_e:
            mm = re.match(r'Layer: (\S+)\.setUp$', name)
            if mm and m.short(mm.group(1)) in m.layers and \
                    m.full(m.short(mm.group(1))) == mm.group(1):
                clos = m.closure(m.short(mm.group(1)))
                listed.append((name, [i for i, l in enumerate(pool) if l in clos]))
            else:
                rest.append(name)
        # maximum bipartite matching (augmenting paths) between listed names and failures
        match = {}       # pool index -> listed index

        def augment(j, seen):
            for i in listed[j][1]:
                if i in seen:
                    continue
                seen.add(i)
                if i not in match or augment(match[i], seen):
                    match[i] = j
                    return True
            return False
        for j in range(len(listed)):
            augment(j, set())
        matched_listed = set(match.values())
        rest += [listed[j][0] for j in range(len(listed)) if j not in matched_listed]
        pool = [l for i, l in enumerate(pool) if i not in match]
        if pool:
            viols.append(C.viol('C12/layer-setup-failure-not-listed',
                                'setUp failures of %r are not listed in %r' % (pool, got_e)))
        got_e = rest
        listed_filter = lambda names: [n for n in names if not (  # noqa: E731
            re.match(r'Layer: (\S+)\.setUp$', n))]
        if set(got_f) != set(want_f):
            viols.append(C.viol('C12/failure-names', 'runner.failures %r, happened %r'
                                % (got_f, want_f)))
        if set(got_e) != set(want_e):
            viols.append(C.viol('C12/error-names', 'runner.errors %r, happened %r'
                                % (got_e, want_e)))
        raw = T._event_names(('failure', 'usuccess', 'error'))
        multiline = any('\n' in n or '\r' in n for n in raw)
        # (a name with a line break in it is printed over several lines by an in-process run:
        # the printed list cannot be parsed back; the recorded lists above still cover it)
        if opt.get('v') and not multiline:
            lf = C.parse_name_block(res.text, 'Tests with failures:')
            le = C.parse_name_block(res.text, 'Tests with errors:')
            if set(lf) != set(want_f):
                viols.append(C.viol('C12/listed-failures', 'listed %r, happened %r'
                                    % (sorted(lf), want_f)))
            le = listed_filter(le)
            if set(le) != set(want_e):
                viols.append(C.viol('C12/listed-errors', 'listed %r, happened %r'
                                    % (sorted(le), want_e)))
    return viols


# ---------------------------------------------------------------------------------------
# C02: verdict


def oracle_verdict(m, spec, res, T):
    viols = []
    mode = 'children' if res.children else 'inprocess'
    if res.hang:
        return [C.viol('C02/hang', res.hang[:300])]
    child_bad = [c for c in res.children if not c['report_complete']]
    spawn_failed = 'spawn_fail' in res.fired
    lookalike = any(c['noise_header_before_report'] for c in res.children)
    child_import = any(p_ != 0 for p_ in T.import_failures)
    expected = T.anything_bad() or bool(child_bad) or spawn_failed or child_import
    # (a child whose layer lost ALL its tests to the import failure cannot find its layer and
    # says so: that case is reported correctly; the known finding is the child that still runs
    # the rest of its layer)
    emptied = any(p_ != 0 and not any(o['pid'] == p_ for o in T.occs) for p_ in T.import_failures)
    reason = 'test/layer/import' if T.anything_bad() else (
        'child-report-missing' if child_bad else ('spawn-failed' if spawn_failed else (
            ('child-import-failure-emptied-layer' if emptied else 'child-only-import-failure')
            if child_import else 'none')))
    if res.raised:
        viols.append(C.viol('C02/no-verdict/%s' % frames_sig(res.raised),
                            'run_internal raised instead of returning a verdict: %s: %s\n%s'
                            % res.raised))
        return viols
    if lookalike:
        return viols
    # a child that died abnormally after its complete report arrived: 'failed' is what the
    # statement says ("died"); the pinned runner cannot tell and uses the report - both accepted
    died_after_report = any(
        c['report_complete'] and (c['died'] or any(k[0] in ('kill_after', 'truncate_report')
                                                   for k in c['channel']))
        for c in res.children)
    if died_after_report and res.verdict and not expected:
        return viols
    if bool(res.verdict) != bool(expected):
        viols.append(C.viol('C02/verdict-%s-expected-%s/%s/%s'
                            % ('failed' if res.verdict else 'passed',
                               'failed' if expected else 'passed', reason, mode),
                            'verdict %r but expected failed=%r (%s); layer failures %r, import '
                            'failures %r, bad tests %r, children %r'
                            % (res.verdict, expected, reason, T.layer_failures,
                               T.import_failures, [o['sid'] for o in T.occs if o['bad']][:4],
                               [(c['layer'], c['died'], c['report_complete'])
                                for c in res.children])))
    return viols


def std_out(spec, ctx, results, viols, extra_probes=None, nontrivial=None):
    fired = {}
    probes = {}
    steps = 0
    simtime = 0.0
    for r in results:
        fired = C.merge_counts(fired, C.fired_kinds(r.trace),
                               {k: 1 for k in r.fired})
        probes = C.merge_counts(probes, r.sched['probes'])
        steps += r.sched['steps']
        simtime += r.sched['simtime']
    if extra_probes:
        probes = C.merge_counts(probes, extra_probes)
    import hashlib
    dg = hashlib.sha256(''.join(core.digest_of(r, ctx.norm) for r in results).encode())
    modes = []
    for r in results:
        if r.children and r.processes > 1:
            modes.append('-j%d' % r.processes)
        elif r.children:
            modes.append('resumed')
        elif '--list-tests' in r.options:
            modes.append('list')
        else:
            modes.append('sequential')
    nt = nontrivial if nontrivial is not None else (
        bool(fired) or any(r.sched['max_alive'] >= 2 for r in results))
    il = None
    if any(r.children for r in results):
        il = hashlib.sha256(repr([(r.sched['log'], r.sched['choices'])
                                  for r in results if r.children]).encode()).hexdigest()[:14]
    out = {'violations': viols, 'digest': dg.hexdigest()[:20], 'interleaving': il,
           'shape': C.shape_of(spec, results), 'nontrivial': nt, 'faults': fired,
           'probes': probes, 'modes': modes, 'steps': steps, 'simtime': simtime,
           'execs': len(results)}
    if getattr(ctx, 'want_sample', False):
        out['sample'] = C.sample_of(spec, results[-1])
    return out
