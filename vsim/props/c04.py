"""C04 - exceptions raised by tests and layers are contained, never abort the run."""
from .. import core
from .. import truth as TR
from .. import world as W
from . import _ws
from .. import xpy
from .. import common as C

ID = 'C04'
TIERS = {'quick': {'seeds': 15000, 'seconds': 45, 'determinism': 48},
         'thorough': {'seconds': 900, 'determinism': 512, 'minimise_s': 120}}
RULE = ('seeded worlds with exceptions (ValueError, KeyError, AssertionError, custom, OSError, '
        'TypeError, SkipTest, SystemExit) injected at every test phase (setUp, body, subTest, '
        'tearDown, cleanup; several per test) and at layer setUp/tearDown, --buffer on/off, -v 0..3, '
        'in-process and in children; oracle: run_internal returns, every selected test whose '
        'layers can be set up ran, layers torn down, summaries present. distinct = digest of '
        'per-pid hook-site sequence + fired faults; non-trivial = a fault fired')
RULE += (' ' + 'Later additions: every group of tests that did not run needs a failed set-up attempt of its own (a base that failed once is tried again for the next layer); AttributeError/RuntimeError from layer hooks.')
BIAS = dict(p_weird_ids=0.15, n_test_faults=[0, 1, 2, 3, 4, 5], n_layer_faults=[0, 0, 1, 2],
            layer_kinds=('setUp', 'tearDown', 'setUp', 'tearDown', 'nie'), p_buffer=0.5, p_j=0.2, p_repeat=0.15,
            p_shuffle=0.15, v=[0, 1, 2, 3], p_occ=0.2,
            test_excs=['AssertionError', 'ValueError', 'KeyError', 'CustomError', 'SystemExit',
                       'TypeError', 'OSError', 'SkipTest', 'BadStr', 'Unhashable', 'SyntaxError'],
            p_color=0.2, p_c_raise=0.12,
            profile=dict(p_doctest=0.2, p_subtests=0.25, p_setup=0.6, p_teardown=0.6, p_cleanup=0.35))


RULE += (' Cross-version tier (directed specs): the same world and fault plan also run as real '
         'processes under CPython 3.9/3.10/3.11/3.13; where the simulated run returned, the real '
         'run must end with exit status 0 or 1, no traceback of its own on stderr and a summary.')


def gen(seed):
    return _ws.gen_ws(seed, ID, BIAS)


def directed(tier, base_seed):
    """Cross-version specs (vsim/xpy.py): unittest routes the exceptions of a test to the result
    object differently in every version (subtests, cleanups, skips, expected failures)."""
    out = []
    n = 16 if tier == 'quick' else 300
    k = 0
    while len(out) < n and k < n * 6:
        spec = gen(9900000 + base_seed * 1021 + k)
        k += 1
        if spec['opt'].get('pm') or spec['opt'].get('xml') or spec.get('knobs') or \
                any(e['a'] not in ('raise', 'write') or e['site'] == 'channel'
                    or str(e.get('stream', '')).startswith('realstderr')
                    or e.get('exc') in ('KeyboardInterrupt', 'MemoryError')
                    for e in spec['plan']):
            continue
        if any((L.get('c_raise') or []) for L in spec['world']['layers']):
            continue
        spec['xpy'] = True
        out.append(spec)
    return out


def run(spec, ctx):
    src = W.materialise(spec['world'], ctx.scratch)
    m = W.Model(spec['world'])
    res = core.execute(spec, W.argv(spec['opt'], src))
    T = TR.Truth(m, res.trace)
    viols = _ws.oracle_contain(m, spec, res, T)
    multi = sum(1 for o in T.occs if len([k for k, _ in o['events'] if k in TR.BAD]) >= 2)
    xprobes = {}
    if spec.get('xpy') and not res.raised and not res.hang and not viols:
        for ver, py in xpy.interpreters():
            real = xpy.execute(spec, W.argv(spec['opt'], src), ctx.scratch, py)
            if real is None:
                xprobes['xpy_unavailable'] = xprobes.get('xpy_unavailable', 0) + 1
                continue
            xprobes['xpy_runs_py' + ver] = 1
            crashed = real.exit not in (0, 1) or \
                'Traceback (most recent call last)' in real.stderr
            if crashed:
                viols.append(C.viol('C04/escaped/py' + ver,
                                    'under CPython %s (real process) the run ended with exit '
                                    'status %r and this on stderr: %s'
                                    % (ver, real.exit, real.stderr[-600:])))
            elif C.RAN_RE.search(res.text) and not C.RAN_RE.search(real.text):
                viols.append(C.viol('C04/no-summary/py' + ver,
                                    'under CPython %s (real process) no "Ran ..." summary line '
                                    'is printed; output ends: %s' % (ver, real.text[-400:])))
    return _ws.std_out(spec, ctx, [res], viols, dict(xprobes, **{'tests_with_2+_bad_events': multi}))
