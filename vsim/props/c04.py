"""C04 - exceptions raised by tests and layers are contained, never abort the run."""
from .. import core
from .. import truth as TR
from .. import world as W
from . import _ws

ID = 'C04'
TIERS = {'quick': {'seeds': 15000, 'seconds': 45, 'determinism': 48},
         'thorough': {'seconds': 900, 'determinism': 512, 'minimise_s': 120}}
RULE = ('seeded worlds with exceptions (ValueError, KeyError, AssertionError, custom, OSError, '
        'TypeError, SkipTest, SystemExit) injected at every test phase (setUp, body, subTest, '
        'tearDown, cleanup; several per test) and at layer setUp/tearDown, --buffer on/off, -v 0..3, '
        'in-process and in children; oracle: run_internal returns, every selected test whose '
        'layers can be set up ran, layers torn down, summaries present. distinct = digest of '
        'per-pid hook-site sequence + fired faults; non-trivial = a fault fired')
RULE += (' ' + 'Later additions: every group of tests that did not run needs a failed set-up attempt of its own (a base that failed once is tried again for the next layer); AttributeError/RuntimeError from layer hooks.')
BIAS = dict(p_weird_ids=0.15, n_test_faults=[0, 1, 2, 3, 4, 5], n_layer_faults=[0, 0, 1, 2],
            layer_kinds=('setUp', 'tearDown', 'setUp', 'tearDown', 'nie'), p_buffer=0.5, p_j=0.2, p_repeat=0.15,
            p_shuffle=0.15, v=[0, 1, 2, 3], p_occ=0.2,
            test_excs=['AssertionError', 'ValueError', 'KeyError', 'CustomError', 'SystemExit',
                       'TypeError', 'OSError', 'SkipTest', 'BadStr', 'Unhashable', 'SyntaxError'],
            p_color=0.2, p_c_raise=0.12,
            profile=dict(p_doctest=0.2, p_subtests=0.25, p_setup=0.6, p_teardown=0.6, p_cleanup=0.35))


def gen(seed):
    return _ws.gen_ws(seed, ID, BIAS)


def run(spec, ctx):
    src = W.materialise(spec['world'], ctx.scratch)
    m = W.Model(spec['world'])
    res = core.execute(spec, W.argv(spec['opt'], src))
    T = TR.Truth(m, res.trace)
    viols = _ws.oracle_contain(m, spec, res, T)
    multi = sum(1 for o in T.occs if len([k for k, _ in o['events'] if k in TR.BAD]) >= 2)
    return _ws.std_out(spec, ctx, [res], viols, {'tests_with_2+_bad_events': multi})
