"""C14 - discovery loads exactly the matching test modules, once, in sorted order."""
import os
import random
import re

from .. import common as C
from .. import core
from .. import fssim
from . import _ws

ID = 'C14'
TIERS = {'quick': {'seeds': 10000, 'seconds': 45, 'determinism': 32},
         'thorough': {'seconds': 900, 'determinism': 256, 'minimise_s': 120}}
RULE = ('generated source trees on tmpfs (identifier / non-identifier / ignored directory names, '
        'packages with and without __init__.py, .py and other extensions, nested tests packages), '
        'random --tests-pattern / --test-file-pattern, overlapping / duplicated / nested --path '
        'entries, -m and -s filters. Each tree is listed (--list-tests) three times with find.os '
        'replaced by a seam that returns every directory\'s entries in a different seeded order '
        '(and the tree is created in a seeded order). Every generated file emits an import event. '
        'Oracle: modules loaded == reference model of the statement, each imported exactly once, '
        'modules rejected by -m / outside -s never imported, listing order identical for all '
        'enumeration orders and equal to the model\'s sorted walk. distinct = digest of tree + '
        'options; non-trivial = >= 2 test modules or a filter/pruning rule applied. Mostly input '
        'generation: the simulation content is the enumeration-order seam and the import history')
RULE += (' One spec in eight (trees without links): a directory below a search path is removed by another process after its parent was listed and before the walk enters it - everything else must still be found.')
RULE += (' ' + 'Later additions: mixed-case directory names, stitched packages, duplicate link targets.')
REAL_VS_STUB = {
    'real': 'options, Find feature, find_test_files/find_suites/test_dirs, import of the '
            'generated modules, Listing feature, on a real tmpfs tree',
    'stub': 'find.os (enumeration order of os.walk); no layer children',
}
IDENT = re.compile(r'[_a-z]\w*$', re.I).match
IGNORE_FOLDERS = {'.git', 'node_modules', '__pycache__'}
DEFAULT_IGNORE = {'.git', '.svn', 'CVS', '{arch}', '.arch-ids', '_darcs'}
TEST_SRC = ("from vsim import simrt as _r\n_r.hook('file.import', __file__)\nimport unittest\n"
            "class T(unittest.TestCase):\n    def test(self):\n        pass\n")
INIT_SRC = "from vsim import simrt as _r\n_r.hook('file.import', __file__)\n"
PLAIN_SRC = "from vsim import simrt as _r\n_r.hook('file.import', __file__)\n"
# a package whose __path__ is extended by a directory outside every --path ("stitched" in):
# its modules are only found through --package-path DIR stitched
STITCH_SRC = ("import os as _os\n__path__.append(_os.path.join(_os.path.dirname(_os.path.dirname("
              "_os.path.dirname(_os.path.abspath(__file__)))), 'knit'))\n")


def gen_dir(rng, name, depth, budget, uniq):
    files = {}
    pool = ['tests.py', 'ftests.py', 'test_a.py', 'test_b.py', 'check_c.py', 'helper.py',
            'tests.txt', 'test_a.pyc', 'tests.py.bak', 'mytests.py', 'testing.py']
    if rng.random() < 0.75:
        files['__init__.py'] = INIT_SRC
    for f in rng.sample(pool, rng.randint(0, 5)):
        if budget[0] <= 0:
            break
        budget[0] -= 1
        files[f] = TEST_SRC if f.endswith('.py') else 'data'
    dirs = []
    if depth < 3:
        names = ['tests', 'ftests', 'sub', 'my-dir', '1x', '.git', 'node_modules', 'CVS',
                 '__pycache__', 'skipme', 'a.b',
                 # mixed case: the sorted walk is by code point, 'Beta' < '_x' < 'alpha'
                 'Beta', '_x', 'alpha', 'Alpha', 'ALPHA']
        for d in rng.sample(names, rng.randint(0, 3)):
            if budget[0] <= 0:
                break
            budget[0] -= 1
            dn = d
            if d == 'sub':
                uniq[0] += 1
                dn = 'sub%d' % uniq[0]
            dirs.append(gen_dir(rng, dn, depth + 1, budget, uniq))
    return {'name': name, 'dirs': dirs, 'files': files}


def gen(seed):
    # module-name clashes (tests.py next to tests/, the same dotted name under two roots) are
    # artefacts of the generated world, not discovery behaviour: draw again
    for attempt in range(30):
        spec = gen1(seed, attempt)
        want, modname, never = model(spec['tree'], spec['opt'], spec.get('ext'), spec.get('knit'))
        allf = dict(modname)
        names = list(allf.values())
        clash = len(names) != len(set(names))
        for t_ in [spec['tree']] + [spec[k] for k in ('ext', 'knit') if spec.get(k)]:
            for rel, node in fssim.walk_tree(t_):
                dn = {d['name'] for d in node['dirs']} | set(node.get('links') or {})
                if any(f.endswith('.py') and f[:-3] in dn for f in node['files']):
                    clash = True
        # sys.path shadowing between overlapping roots: the first component of a module name
        # must be reachable from one root only
        nodes = dict(fssim.walk_tree(spec['tree']))
        roots = sorted(set(spec['opt']['roots']), key=len, reverse=True)
        for f, mn in allf.items():
            first = mn.split('.')[0]
            if f.startswith('knit/'):
                continue
            owner = [r for r in roots if f.startswith(r + '/')][0]
            for r in roots:
                if r == owner:
                    continue
                node = nodes[r]
                if any(first + e in node['files'] for e in ('.py', '.pyc', '.pyo')) or \
                        any(d['name'] == first for d in node['dirs']) or \
                        first in (node.get('links') or {}):
                    clash = True
        if not clash:
            return spec
    return spec


def gen1(seed, attempt):
    rng = random.Random(seed * 37 + attempt)
    uniq = [0]
    budget = [25]
    tops = []
    for i in range(rng.randint(1, 3)):
        tops.append(gen_dir(rng, 'p%c%d' % ('abc'[i], seed % 7), 1, budget, uniq))
    tree = {'name': 'root', 'dirs': tops, 'files': {}}
    if rng.random() < 0.3:
        tree['files']['tests.py'] = TEST_SRC
    ext = None
    if rng.random() < 0.25:
        # directories outside every search path, reached through symbolic links only
        ext = {'name': 'ext', 'files': {}, 'dirs': [
            gen_dir(rng, 'x%d' % i, 2, [6], uniq) for i in range(rng.randint(1, 2))]}
        hosts = [node for rel, node in fssim.walk_tree(tree)
                 if rel != 'root' and '__init__.py' in node['files']]
        for k, target in enumerate(ext['dirs']):
            if not hosts:
                break
            host = rng.choice(hosts)
            name = rng.choice(['lnk%d' % k, 'linked%d' % k, 'ln-k', 'node_modules',
                               '__pycache__', '.git', 'skipme', '1lnk', 'tests'])
            if name in [d['name'] for d in host['dirs']] or name in (host.get('links') or {}) \
                    or name + '.py' in host['files']:
                continue
            host.setdefault('links', {})[name] = 'ext/' + target['name']
            if rng.random() < 0.35:
                # a second link to the very same directory: another package, not a loop
                host2 = rng.choice(hosts)
                name2 = 'also%d' % k
                if name2 not in [d['name'] for d in host2['dirs']] and \
                        name2 not in (host2.get('links') or {}):
                    host2.setdefault('links', {})[name2] = 'ext/' + target['name']
    knit = None
    if rng.random() < 0.12:
        knit = gen_dir(rng, 'knit', 2, [8], uniq)
        knit['files'].pop('__init__.py', None)
        tree['dirs'].append({'name': 'stitched', 'dirs': [], 'files': {'__init__.py': STITCH_SRC}})
    roots = ['root']
    nested = [rel for rel, node in fssim.walk_tree(tree)
              if rel != 'root' and 'stitched' not in rel.split('/') and all(IDENT(x) and x not in IGNORE_FOLDERS
                                       and x not in DEFAULT_IGNORE
                                       for x in rel.split('/')[1:])]
    r = rng.random()
    if nested and r < 0.3:
        roots.append(rng.choice(nested))
    if r > 0.85:
        roots.append('root')
    if nested and rng.random() < 0.1:
        roots = [rng.choice(nested)] + roots
    opt = {'roots': roots}
    if rng.random() < 0.25:
        # --test-path: searched, but not put on sys.path (what cannot be imported from there
        # is still a test module: it is reported as an import problem)
        opt['root_kinds'] = [rng.choice(['path', 'test-path']) for _ in roots]
    if rng.random() < 0.12:
        # a search path given once more as a --package-path (script defaults + command
        # line): searched after the plain paths, so every file is already taken - no effect
        opt['package_path_dup'] = rng.randrange(len(roots))
    if rng.random() < 0.3:
        opt['tests_pattern'] = rng.choice(['^(tests|ftests)$', 'tests$', '^f?tests$'])
    if rng.random() < 0.3:
        opt['test_file_pattern'] = rng.choice(['^(test|check)_', '^test_a', '_[ab]$'])
    # (with nested roots a file has one dotted name per root and -m becomes ambiguous: the
    # statement does not say which name is filtered, so the two are not combined)
    if rng.random() < 0.3 and len(set(roots)) == 1:
        opt['m'] = rng.sample(['tests$', 'test_a', '!ftests', r'\.tests\.', '!test_b', 'sub'],
                              rng.randint(1, 2))
    if rng.random() < 0.2:
        opt['ignore_dir'] = ['skipme'] + ([rng.choice(['ftests', 'sub1'])]
                                          if rng.random() < 0.3 else [])
    if rng.random() < 0.15 and roots == ['root'] and not opt.get('root_kinds'):
        cands = [t['name'] for t in tops if '__init__.py' in t['files']
                 and t['name'] != 'stitched']
        if cands:
            opt['s'] = [rng.choice(cands)]
    spec = {'property': ID, 'seed': seed, 'tree': tree, 'opt': opt,
            'world': {'layers': [], 'modules': []}, 'plan': [], 'knobs': {},
            'sched': {'prng': seed}}
    if ext is not None:
        spec['ext'] = ext
    if knit is not None and roots == ['root'] and not opt.get('s'):
        spec['knit'] = knit
        if 'm' not in opt and rng.random() < 0.6:
            opt['m'] = [rng.choice([r'^stitched\.', r'!^stitched', r'stitched\.\w+\.tests$',
                                    'tests$', '!sub'])]
    elif knit is not None:
        tree['dirs'] = [d for d in tree['dirs'] if d['name'] != 'stitched']
    if seed % 8 == 6 and ext is None and 'knit' not in spec and not opt.get('s') and \
            not any(node.get('links') for _, node in fssim.walk_tree(tree)):
        # a directory below a search path disappears (another process cleans up) after its
        # parent was listed and before the walk enters it: everything else is still found
        vrng = random.Random(seed ^ 0x7A15)
        cands = [rel for rel, node in fssim.walk_tree(tree)
                 if not any(r == rel or r.startswith(rel + '/') for r in roots)]
        if cands:
            spec['vanish'] = vrng.choice(cands)
    return spec


def model(tree, opt, ext=None, knit=None):
    """(ordered list of test files (relative), {file: module name}, excluded-by-filter files)."""
    tp = re.compile(opt.get('tests_pattern', '^tests$')).search
    fp = re.compile(opt.get('test_file_pattern', '^test')).search
    ignore = DEFAULT_IGNORE | set(opt.get('ignore_dir') or [])
    nodes = dict(fssim.walk_tree(tree))
    if ext is not None:
        nodes.update(fssim.walk_tree(ext))
    roots = opt['roots']
    found = []
    seen = set()

    def visit(rel, node):
        name = rel.rsplit('/', 1)[-1]
        files = node['files']
        hit = set()
        if tp(name) and '__init__.py' in files:
            for f in files:
                if f.endswith('.py') and fp(f[:-3]):
                    hit.add(f)
        for f in files:
            if f.endswith('.py') and tp(f[:-3]):
                hit.add(f)
        for f in sorted(rel + '/' + f for f in hit):
            if f not in seen:
                seen.add(f)
                found.append(f)
        # (a symlinked directory is searched like a real one, under the link's name)
        for dn, d, is_link in sorted(fssim.children(node, nodes), key=lambda c: c[0]):
            if dn in ignore or dn in IGNORE_FOLDERS or not IDENT(dn):
                continue
            visit(rel + '/' + dn, d)

    kinds = opt.get('root_kinds') or ['path'] * len(roots)
    # (the runner searches the --test-path entries before the --path entries)
    ordered = [r for r, k in zip(roots, kinds) if k == 'test-path'] + \
        [r for r, k in zip(roots, kinds) if k != 'test-path']
    if opt.get('s'):
        walk_roots = ['root/' + p for p in opt['s']]
    else:
        walk_roots = ordered
    for r in walk_roots:
        visit(r, nodes[r])
    if knit is not None:
        # --package-path knit stitched: searched after the plain paths
        nodes.update(fssim.walk_tree(knit))
        visit('knit', knit)
    # module names: relative to the longest root prefix
    prefixes = sorted(set(roots), key=len, reverse=True)
    modname = {}
    for f in found:
        if f.startswith('knit/'):
            modname[f] = 'stitched.' + f[len('knit/'):-3].replace('/', '.')
            continue
        for p in prefixes:
            if f.startswith(p + '/'):
                modname[f] = f[len(p) + 1:-3].replace('/', '.')
                break
    accept = (lambda n: True)
    if opt.get('m'):
        from ..world import filtering_func
        accept = filtering_func(opt['m'])
    loaded = [f for f in found if accept(modname[f])]
    rejected = [f for f in found if not accept(modname[f])]
    # files outside the searched package (-s) that would otherwise be test modules
    outside = []
    if opt.get('s'):
        seen2, found2 = set(seen), list(found)
        seen.clear()
        del found[:]
        for r in roots:
            visit(r, nodes[r])
        outside = [f for f in found if f not in seen2]
        del found[:]
        found.extend(found2)
    return loaded, modname, rejected + outside


def run(spec, ctx):
    opt = spec['opt']
    top = ctx.scratch
    rng = random.Random(spec['seed'] * 131 + 5)
    if spec.get('ext') is not None:
        fssim.materialise(spec['ext'], top, order_rng=rng)
    fssim.materialise(spec['tree'], top, order_rng=rng)
    if spec.get('knit') is not None:
        fssim.materialise(spec['knit'], top, order_rng=rng)
    has_links = any(node.get('links') for _, node in fssim.walk_tree(spec['tree']))
    args = []
    kinds = opt.get('root_kinds') or ['path'] * len(opt['roots'])
    for r, kind in zip(opt['roots'], kinds):
        args += ['--' + kind, os.path.join(top, r)]
    if spec.get('knit') is not None:
        args += ['--package-path', os.path.join(top, 'knit'), 'stitched']
    if opt.get('package_path_dup') is not None:
        args += ['--package-path',
                 os.path.join(top, opt['roots'][opt['package_path_dup'] % len(opt['roots'])]),
                 'stitched']
    if opt.get('tests_pattern'):
        args += ['--tests-pattern', opt['tests_pattern']]
    if opt.get('test_file_pattern'):
        args += ['--test-file-pattern', opt['test_file_pattern']]
    for p in opt.get('m') or []:
        args += ['-m', p]
    for p in opt.get('s') or []:
        args += ['-s', p]
    for d in opt.get('ignore_dir') or []:
        args += ['--ignore_dir', d]
    args += ['--list-tests', '-k']
    want, modname, never = model(spec['tree'], opt, spec.get('ext'), spec.get('knit'))
    viols = []
    listings = []
    results = []
    import sys
    for k in range(3):
        # every execution is a fresh process as far as the imported world goes
        tops = set()
        for r in opt['roots']:
            for entry in os.listdir(os.path.join(top, r)):
                tops.add(entry[:-3] if entry.endswith('.py') else entry)
        for name in [n for n in list(sys.modules) if n.split('.')[0] in tops]:
            del sys.modules[name]
        import importlib
        importlib.invalidate_caches()
        if spec.get('vanish'):
            fssim.materialise(spec['tree'], top, order_rng=random.Random(spec['seed'] + k))
        simos = fssim.SimOS(random.Random(spec['seed'] * 7 + k), shuffle=(k > 0),
                            vanish=(os.path.join(top, spec['vanish'])
                                    if spec.get('vanish') else None))
        core.prepare()      # (fresh runner modules for every execution: patch those)
        ZF = sys.modules['zope.testrunner.find']
        old = ZF.os
        ZF.os = simos
        try:
            res = core.execute(spec, args, label='enum-order-%d' % k)
        finally:
            ZF.os = old
        results.append(res)
        if res.raised and spec.get('vanish') and simos.vanished and \
                res.raised[0] in ('FileNotFoundError', 'OSError', 'NotADirectoryError'):
            # (fail-stop on the race is not a wrong answer: nothing was loaded or run)
            break
        if res.raised:
            viols.append(C.viol('C14/run-aborted/%s' % _ws.frames_sig(res.raised),
                                repr(res.raised)))
            break
        # modules loaded as test modules: those with listed tests or reported import problems
        listed = []
        for layer, tests in C.parse_listing(res.text):
            for t in tests:
                mm = re.match(r'test \((.*)\.T\.test\)$', t)
                if mm:
                    listed.append(mm.group(1))
        problems = [p.strip() for p in C.parse_name_block(
            res.text, 'Test-modules with import problems:', indent='  ')]
        listings.append(listed)
        imported = {}
        for ev in res.trace:
            if ev[1] == 'file.import':
                relp = os.path.relpath(ev[2], top)
                imported[relp] = imported.get(relp, 0) + 1
        if simos.vanished:
            # (what lay in the directory that disappeared cannot be found; the rest must be)
            want = [f for f in want if not f.startswith(spec['vanish'] + '/')]
            never = [f for f in never if not f.startswith(spec['vanish'] + '/')]
        want_mods = [modname[f] for f in want]
        if sorted(listed + problems) != sorted(want_mods):
            viols.append(C.viol('C14/loaded-set-differs',
                                'loaded %r (+import problems %r), model says %r; options %r'
                                % (sorted(listed), sorted(problems), sorted(want_mods), opt)))
            break
        for f in want:
            if modname[f] in problems:
                continue
            if imported.get(f, 0) != 1:
                viols.append(C.viol('C14/not-imported-exactly-once',
                                    '%s imported %d times' % (f, imported.get(f, 0))))
                break
        for f in never:
            if imported.get(f):
                viols.append(C.viol('C14/filtered-module-imported',
                                    '%s is excluded by -m/-s but was imported' % f))
                break
        # (where a symlinked directory comes in the walk is not part of the statement: with
        # links only independence from the enumeration order is checked, below)
        if not problems and listed != want_mods and not has_links:
            viols.append(C.viol('C14/order-differs-from-sorted-walk',
                                'listed %r, sorted walk gives %r' % (listed, want_mods)))
            break
    if len(listings) == 3 and not (listings[0] == listings[1] == listings[2]):
        viols.append(C.viol('C14/order-depends-on-enumeration',
                            'listings under three enumeration orders: %r' % (listings,)))
    for r in results:
        if r.raised:
            r.raised = tuple(str(x).replace(top, '<W>') for x in r.raised)
        r.out = [(t, x.replace(top, '<W>')) for t, x in r.out]
        r.trace = [[e[0], e[1], str(e[2]).replace(top, '<W>'), e[3], e[4]] for e in r.trace]
    nt = len(want) >= 2 or bool(never) or len(opt) > 1
    out = _ws.std_out(spec, ctx, results, viols,
                      {'test_modules': len(want), 'never_import': len(never),
                       'directory_vanished_during_walk': int(bool(results) and simos.vanished),
                       'roots': len(opt['roots'])}, nontrivial=nt)
    import hashlib
    import json
    out['shape'] = hashlib.sha256(json.dumps([sorted(modname.values()), sorted(opt.items(),
                                                                              key=str)],
                                             default=str).encode()).hexdigest()[:16]
    return out
