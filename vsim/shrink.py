"""Spec minimisation: candidate generator for greedy delta debugging.  Every candidate is a
strictly smaller (or simpler) spec; the driver keeps one only if the same violation signature
persists when it is executed."""
import copy


def candidates(spec, extra=None):
    # 1. plan entries: drop halves, then singles
    plan = spec.get('plan') or []
    n = len(plan)
    if n > 1:
        for lo, hi in ((0, n // 2), (n // 2, n)):
            c = copy.deepcopy(spec)
            c['plan'] = plan[:lo] + plan[hi:]
            yield c
    for i in range(n):
        c = copy.deepcopy(spec)
        del c['plan'][i]
        yield c
    # 2. options: drop keys, shrink integers
    opt = spec.get('opt') or {}
    for k in sorted(opt):
        c = copy.deepcopy(spec)
        del c['opt'][k]
        yield c
    for k in sorted(opt):
        v = opt[k]
        if isinstance(v, bool):
            continue
        if isinstance(v, int) and v > 1:
            for nv in sorted({1, v // 2, v - 1}):
                if 0 < nv < v:
                    c = copy.deepcopy(spec)
                    c['opt'][k] = nv
                    yield c
        if isinstance(v, list) and len(v) > 1:
            for i in range(len(v)):
                c = copy.deepcopy(spec)
                del c['opt'][k][i]
                yield c
    world = spec.get('world')
    if world:
        # 3. modules, classes, tests
        mods = world.get('modules') or []
        for mi in range(len(mods)):
            if len(mods) > 1:
                c = copy.deepcopy(spec)
                name = c['world']['modules'][mi]['name']
                del c['world']['modules'][mi]
                yield c
        for mi, m in enumerate(mods):
            if m.get('suite') is not None:
                c = copy.deepcopy(spec)
                c['world']['modules'][mi]['suite'] = None
                yield c
            for ci in range(len(m['classes'])):
                if len(m['classes']) > 1:
                    c = copy.deepcopy(spec)
                    cname = m['classes'][ci]['name']
                    del c['world']['modules'][mi]['classes'][ci]
                    _prune_suite(c['world']['modules'][mi], cname, None)
                    yield c
            for ci, cl in enumerate(m['classes']):
                for ti in range(len(cl['tests'])):
                    if len(cl['tests']) > 1:
                        c = copy.deepcopy(spec)
                        tname = cl['tests'][ti]['name']
                        del c['world']['modules'][mi]['classes'][ci]['tests'][ti]
                        _prune_suite(c['world']['modules'][mi], cl['name'], tname)
                        yield c
                for key in ('setup', 'teardown', 'cleanup', 'level', 'layer_as_str'):
                    if cl.get(key):
                        c = copy.deepcopy(spec)
                        del c['world']['modules'][mi]['classes'][ci][key]
                        yield c
                for ti, t in enumerate(cl['tests']):
                    for key in ('deco', 'subtests'):
                        if t.get(key):
                            c = copy.deepcopy(spec)
                            del c['world']['modules'][mi]['classes'][ci]['tests'][ti][key]
                            yield c
        # 4. layers: remove one (re-parenting), drop hooks, instance -> class
        layers = world.get('layers') or []
        for li, L in enumerate(layers):
            c = copy.deepcopy(spec)
            _remove_layer(c['world'], L['name'])
            yield c
        for li, L in enumerate(layers):
            for h in L['hooks']:
                c = copy.deepcopy(spec)
                c['world']['layers'][li]['hooks'].remove(h)
                yield c
            for b in L['bases']:
                c = copy.deepcopy(spec)
                c['world']['layers'][li]['bases'].remove(b)
                yield c
    # 5. knobs / scheduler
    for k in sorted(spec.get('knobs') or {}):
        c = copy.deepcopy(spec)
        del c['knobs'][k]
        yield c
    sched = spec.get('sched') or {}
    if sched.get('choices'):
        ch = sched['choices']
        c = copy.deepcopy(spec)
        c['sched']['choices'] = ch[:len(ch) // 2]
        yield c
        c = copy.deepcopy(spec)
        c['sched']['choices'] = []
        yield c
    if extra is not None:
        for c in extra(spec):
            yield c


def _prune_suite(module, cname, tname):
    def rec(node):
        if 'cls' in node:
            if node['cls'] != cname:
                return node
            if tname is None:
                return None
            if node.get('test') == tname:
                return None
            return node
        node['children'] = [x for x in (rec(ch) for ch in node['children']) if x is not None]
        return node
    if module.get('suite') is not None:
        rec(module['suite'])


def _remove_layer(world, name):
    L = [x for x in world['layers'] if x['name'] == name][0]
    repl = L['bases'][0] if L['bases'] else None
    world['layers'] = [x for x in world['layers'] if x['name'] != name]
    kinds = {x['name']: x['kind'] for x in world['layers']}
    for x in world['layers']:
        if name in x['bases']:
            nb = []
            for b in x['bases']:
                if b == name:
                    for bb in L['bases']:
                        if bb not in nb and bb not in x['bases']:
                            nb.append(bb)
                elif b not in nb:
                    nb.append(b)
            # class layers can only have class bases
            if x['kind'] == 'class':
                nb = [b for b in nb if kinds.get(b) == 'class']
            x['bases'] = nb

    def fix(node):
        if node.get('layer') == name:
            if repl is None:
                node.pop('layer')
            else:
                node['layer'] = repl
        for ch in node.get('children') or []:
            fix(ch)
    for m in world['modules']:
        for c in m['classes']:
            fix(c)
        if m.get('suite') is not None:
            fix(m['suite'])
