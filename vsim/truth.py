"""Ground truth of a run, computed from the trace (what the world's hooks saw and which injected
faults fired) with the unittest model - never from what the runner printed or recorded."""
import re

from . import common as C
from . import world as W

BAD = ('failure', 'error', 'usuccess')


class Truth:
    def __init__(self, m, trace):
        self.m = m
        self.disc = {d['tid']: d for d in m.discover()}
        self.occs = []             # test occurrences, trace order
        self.layer_failures = []   # (pid, layer short name, hook, exc)
        self.nie = []              # (pid, layer)  tearDown raised NotImplementedError
        self.import_failures = {}  # pid -> [module, ...]
        self.pids = sorted(C.by_pid(trace))
        for pid, events in sorted(C.by_pid(trace).items()):
            self._scan(pid, events)

    def _scan(self, pid, events):
        occs, outside = C.occurrences(events)
        for oc in occs:
            d = self.disc.get(oc['tid'])
            if d is None:
                continue
            raised = C.raised_map(oc)
            if oc['open']:
                pred = {'started': True, 'events': [], 'phases': []}
            elif oc.get('debug'):
                # -D: test.debug() lets the first exception through (the runner reports it and
                # enters the debugger); a skip is a skip, anything else an error
                exc = [x for x in raised.values()]
                kind = 'success' if not exc else ('skip' if exc[0] == 'SkipTest' else 'error')
                if d['t'].get('deco') == 'skip':
                    kind = 'skip'
                pred = {'started': True, 'events': [(kind, 'test')], 'phases': []}
            else:
                pred = W.predict_test(W.with_class_flags(d), raised)
            self.occs.append({
                'pid': pid, 'tid': oc['tid'], 'sid': d['sid'], 'occ': oc['occ'],
                'layer': d['layer'], 'started': pred['started'], 'events': pred['events'],
                'raised': raised, 'open': oc['open'], 'index': oc['index'],
                'end_index': oc.get('end_index'),
                'bad': any(k in BAD for k, _ in pred['events']), 'd': d})
        last = None
        for ev in events:
            if ev[1] == 'fault':
                if ev[2].startswith('raise:') and last is not None:
                    exc = ev[2][6:]
                    if last[1] in ('layer.setUp', 'layer.tearDown'):
                        hook = last[1][6:]
                        if hook == 'tearDown' and exc == 'NotImplementedError':
                            self.nie.append((pid, last[2]))
                        else:
                            self.layer_failures.append((pid, last[2], hook, exc))
                    elif last[1] in ('module.import', 'module.test_suite'):
                        self.import_failures.setdefault(pid, []).append(last[2])
            else:
                last = ev

    def count(self, pid=None, layer='*', occ=None):
        """(started, failures, errors, skips) over matching occurrences."""
        n = f = e = s = 0
        for o in self.occs:
            if pid is not None and o['pid'] != pid:
                continue
            if layer != '*' and o['layer'] != layer:
                continue
            if occ is not None and o['occ'] != occ:
                continue
            n += o['d']['t'].get('count') or 1
            for k, _ in o['events']:
                if k in ('failure', 'usuccess'):
                    f += 1
                elif k == 'error':
                    e += 1
                elif k == 'skip':
                    s += 1
        return n, f, e, s

    def event_names(self, kinds, pid=None):
        """Names as the runner lists them: the test's str(), or the subtest's str() - on one
        line (line breaks inside a name are blanks: the convention of the name lists)."""
        return [re.sub(r'[\r\n]+', ' ', n.strip()) for n in self._event_names(kinds, pid)]

    def _event_names(self, kinds, pid=None):
        out = []
        for o in self.occs:
            if pid is not None and o['pid'] != pid:
                continue
            for k, subj in o['events']:
                if k in kinds:
                    if subj == 'test':
                        out.append(o['sid'])
                    else:
                        out.append('%s (i=%s)' % (o['sid'], subj[4:]))
        return out

    def anything_bad(self):
        return (any(o['bad'] for o in self.occs) or bool(self.layer_failures)
                or bool(self.import_failures.get(0)))
