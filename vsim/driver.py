"""Check driver: worker lanes (fresh interpreters, own PYTHONHASHSEED, zygote + fork per
sim-run), seeded search, determinism self-test, minimisation, replay files, known findings,
evidence.  Exit 0 = held on everything explored, 1 = VIOLATION, 2 = harness error."""
import argparse
import gc
import hashlib
import importlib
import json
import os
import selectors
import shutil
import signal
import subprocess
import sys
import tempfile
import time
import traceback

VERIF = os.path.dirname(os.path.dirname(os.path.abspath(__file__)))
PY = sys.executable
KNOWN_FILE = os.path.join(VERIF, 'known_findings.json')
SIMRUN_TIMEOUT = 90


def prop_module(pid):
    return importlib.import_module('vsim.props.' + pid.lower())


# ---------------------------------------------------------------------------------------
# one sim-run in a forked process (called inside a lane)


class Ctx:
    def __init__(self, scratch):
        self.scratch = scratch

    def norm(self, text):
        return text.replace(self.scratch, '<W>')


def run_forked(prop, spec, scratch_root, n, want_sample=False):
    d = os.path.join(scratch_root, 'r%07d' % n)      # (fixed width: paths show up in messages)
    r, w = os.pipe()
    pid = os.fork()
    if pid == 0:
        data = b''
        try:
            os.close(r)
            signal.alarm(SIMRUN_TIMEOUT)
            os.makedirs(d)
            ctx = Ctx(d)
            ctx.want_sample = want_sample
            from . import core as _core
            # odd seeds: the executions of a spec share one interpreter (successive
            # run_internal calls); even seeds: every execution gets fresh runner modules
            _core.REUSE_MODULES = bool(spec.get('reuse_modules',
                                                (spec.get('seed') or 0) % 2 == 1))
            out = prop.run(spec, ctx)
            data = json.dumps(out).encode()
        except BaseException:  # noqa
            data = json.dumps({'harness_error': traceback.format_exc()[-3000:]}).encode()
        try:
            while data:
                k = os.write(w, data)
                data = data[k:]
        finally:
            os._exit(0)
    os.close(w)
    chunks = []
    while True:
        c = os.read(r, 1 << 16)
        if not c:
            break
        chunks.append(c)
    os.close(r)
    _, status = os.waitpid(pid, 0)
    shutil.rmtree(d, ignore_errors=True)
    data = b''.join(chunks)
    if not data:
        return {'harness_error': 'sim-run process died, wait status %d (watchdog or crash)'
                % status}
    try:
        return json.loads(data)
    except ValueError:
        return {'harness_error': 'unparsable sim-run result (%d bytes)' % len(data)}


def lane_main(argv):
    from . import boot
    boot.bootstrap()
    prop = prop_module(argv[0])
    from . import core  # noqa  (warm the zygote)
    root = '/dev/shm' if os.path.isdir('/dev/shm') and os.access('/dev/shm', os.W_OK) else None
    scratch_root = tempfile.mkdtemp(prefix='vsim-', dir=root)
    os.environ['VSIM_PYC_DIR'] = os.path.join(scratch_root, 'pyc')
    gc.collect()
    gc.freeze()
    n = 0
    try:
        for line in sys.stdin:
            line = line.strip()
            if not line:
                continue
            cmd = json.loads(line)
            if 'spec' in cmd:
                spec = cmd['spec']
            else:
                spec = prop.gen(cmd['seed'])
            n += 1
            out = run_forked(prop, spec, scratch_root, n, cmd.get('want_sample', False))
            out['tag'] = cmd.get('tag')
            out['seed'] = cmd.get('seed', spec.get('seed'))
            if cmd.get('want_spec') or out.get('violations'):
                out['spec'] = spec
            sys.stdout.write(json.dumps(out) + '\n')
            sys.stdout.flush()
    finally:
        shutil.rmtree(scratch_root, ignore_errors=True)
    return 0


# ---------------------------------------------------------------------------------------
# lanes as seen from the driver


class Lane:
    def __init__(self, pid, hashseed):
        env = dict(os.environ)
        env['PYTHONHASHSEED'] = str(hashseed)
        env['PYTHONDONTWRITEBYTECODE'] = '1'
        self.hashseed = hashseed
        self.p = subprocess.Popen(
            [PY, '-B', '-c',
             'import sys; sys.path.insert(0, %r); from vsim import driver; '
             'sys.exit(driver.lane_main(sys.argv[1:]))' % VERIF, pid],
            stdin=subprocess.PIPE, stdout=subprocess.PIPE, env=env, cwd=VERIF)
        self.buf = b''
        self.inflight = 0

    def send(self, cmd):
        self.p.stdin.write((json.dumps(cmd) + '\n').encode())
        self.p.stdin.flush()
        self.inflight += 1

    def close(self):
        try:
            self.p.stdin.close()
        except Exception:
            pass
        try:
            self.p.wait(timeout=20)
        except Exception:
            self.p.kill()


class Pool:
    def __init__(self, pid, workers, hashseeds=None):
        self.lanes = [Lane(pid, (hashseeds[i % len(hashseeds)] if hashseeds else i + 1))
                      for i in range(workers)]
        self.sel = selectors.DefaultSelector()
        for ln in self.lanes:
            self.sel.register(ln.p.stdout, selectors.EVENT_READ, ln)

    def run(self, work, on_result, depth=2):
        """work: iterator of commands (may be lazy / time boxed). Calls on_result(out)."""
        work = iter(work)
        exhausted = False
        pending = 0

        def feed(ln):
            nonlocal exhausted, pending
            while not exhausted and ln.inflight < depth:
                try:
                    cmd = next(work)
                except StopIteration:
                    exhausted = True
                    return
                ln.send(cmd)
                pending += 1

        for ln in self.lanes:
            feed(ln)
        while pending:
            events = self.sel.select(timeout=SIMRUN_TIMEOUT * 2)
            if not events:
                raise RuntimeError('lanes stalled')
            for key, _ in events:
                ln = key.data
                data = os.read(key.fileobj.fileno(), 1 << 16)
                if not data:
                    raise RuntimeError('lane died (exit %r)' % ln.p.poll())
                ln.buf += data
                while b'\n' in ln.buf:
                    line, ln.buf = ln.buf.split(b'\n', 1)
                    ln.inflight -= 1
                    pending -= 1
                    out = json.loads(line)
                    out['lane_hashseed'] = ln.hashseed
                    on_result(out)
                feed(ln)

    def close(self):
        for ln in self.lanes:
            ln.close()


# ---------------------------------------------------------------------------------------
# known findings


def load_known():
    try:
        with open(KNOWN_FILE) as f:
            data = json.load(f)
    except FileNotFoundError:
        return []
    return data.get('findings', [])


def known_match(known, pid, sig):
    for k in known:
        if k.get('status') == 'known' and k.get('property') == pid and k.get('signature') == sig:
            return k
    return None


# ---------------------------------------------------------------------------------------
# minimisation


def minimise(pool, prop, pid, spec, sig, budget_s=60, log=None):
    """Greedy delta debugging over the spec; candidates are evaluated in parallel batches."""
    from . import shrink
    t_end = time.time() + budget_s
    best = spec
    best_v = None
    runs = 0
    improved = True
    while improved and time.time() < t_end:
        improved = False
        cands = list(shrink.candidates(best, getattr(prop, 'shrink_extra', None)))
        i = 0
        W = max(1, len(pool.lanes))
        while i < len(cands) and time.time() < t_end:
            batch = cands[i:i + W]
            results = {}

            def on(out):
                results[out['tag']] = out
            pool.run(({'spec': c, 'tag': j} for j, c in enumerate(batch)), on, depth=1)
            runs += len(batch)
            hit = None
            for j in range(len(batch)):
                out = results.get(j) or {}
                if any(v['sig'] == sig for v in out.get('violations') or []):
                    hit = j
                    break
            if hit is not None:
                best = batch[hit]
                best_v = dict([v for v in results[hit]['violations'] if v['sig'] == sig][0],
                              digest=results[hit].get('digest'))
                improved = True
                break
            i += W
    return best, runs, best_v


# ---------------------------------------------------------------------------------------
# driver


def spec_size(spec):
    return len(json.dumps(spec))


def main(argv):
    ap = argparse.ArgumentParser()
    ap.add_argument('pid')
    ap.add_argument('--tier', default=os.environ.get('VERIF_TIER', 'quick'))
    ap.add_argument('--replay')
    ap.add_argument('--seeds', type=int)
    ap.add_argument('--seconds', type=float)
    ap.add_argument('--workers', type=int,
                    default=int(os.environ.get('VERIF_WORKERS', '0')) or (os.cpu_count() or 4))
    ap.add_argument('--no-evidence', action='store_true')
    ap.add_argument('--no-minimise', action='store_true')
    a = ap.parse_args(argv)
    pid = a.pid.upper()
    try:
        return _main(a, pid)
    except Exception:
        traceback.print_exc()
        print('HARNESS-ERROR property=%s' % pid)
        return 2


def _main(a, pid):
    sys.path.insert(0, VERIF)
    from . import boot
    boot.bootstrap()
    prop = prop_module(pid)
    known = load_known()
    if a.replay:
        return do_replay(a, pid, prop, known)
    tier = a.tier if a.tier in ('quick', 'thorough') else 'quick'
    base_seed = int(os.environ.get('VERIF_SEED', '0') or 0)
    cfg = dict(prop.TIERS[tier])
    if a.seeds:
        cfg['seeds'] = a.seeds
    if a.seconds:
        cfg['seconds'] = a.seconds
    t0 = time.time()
    deadline = t0 + cfg.get('seconds', 1e9)
    nseeds = cfg.get('seeds', 10 ** 9)
    ndet = cfg.get('determinism', 32)
    pool = Pool(pid, a.workers)

    outs = []
    stats = {'evaluations': 0, 'harness_errors': [], 'faults': {}, 'probes': {}, 'modes': {},
             'steps': 0, 'simtime': 0.0, 'execs': 0, 'fault_runs': 0, 'fault_free_runs': 0}
    shapes = set()
    interleavings = set()
    digests = {}
    samples = []
    violations = {}   # sig -> first outcome

    def work():
        k = 0
        # regression corpus: committed replay files of this property
        # (replays/: minimised histories of findings; corpus/: specs that killed a mutant)
        for rdir in (os.path.join(VERIF, 'replays'), os.path.join(VERIF, 'corpus')):
            for fn in sorted(os.listdir(rdir)) if os.path.isdir(rdir) else []:
                if fn.startswith(pid + '-') and fn.endswith('.json'):
                    try:
                        with open(os.path.join(rdir, fn)) as f:
                            yield {'spec': json.load(f)['spec'], 'tag': 'directed'}
                    except (ValueError, KeyError):
                        pass
        directed = getattr(prop, 'directed', None)
        if directed is not None:
            for spec in directed(tier, base_seed):
                yield {'spec': spec, 'tag': 'directed', 'want_sample': False}
        while k < nseeds and time.time() < deadline:
            yield {'seed': base_seed * 1000003 + k, 'want_sample': k < 3}
            k += 1

    def on_result(out):
        stats['evaluations'] += 1
        if out.get('harness_error'):
            stats['harness_errors'].append((out.get('seed'), out['harness_error']))
            return
        if out.get('tag') == 'directed':
            stats['directed'] = stats.get('directed', 0) + 1
        for k, v in (out.get('faults') or {}).items():
            stats['faults'][k] = stats['faults'].get(k, 0) + v
        for k, v in (out.get('probes') or {}).items():
            stats['probes'][k] = stats['probes'].get(k, 0) + v
        for k in out.get('modes') or []:
            stats['modes'][k] = stats['modes'].get(k, 0) + 1
        stats['steps'] += out.get('steps', 0)
        stats['simtime'] += out.get('simtime', 0.0)
        stats['execs'] += out.get('execs', 1)
        if out.get('faults'):
            stats['fault_runs'] += 1
        else:
            stats['fault_free_runs'] += 1
        if out.get('nontrivial'):
            shapes.add(out.get('shape'))
        if out.get('interleaving'):
            interleavings.add(out['interleaving'])
        if out.get('seed') is not None and out.get('tag') != 'directed':
            digests[out['seed']] = (out.get('digest'), out['lane_hashseed'])
        if out.get('sample') is not None and len(samples) < 3:
            samples.append(out['sample'])
        for v in out.get('violations') or []:
            if v['sig'] not in violations:
                violations[v['sig']] = (v, out)

    try:
        pool.run(work(), on_result)
        # determinism self-test: same seeds again under other hash seeds / lane counts
        det_checked = 0
        det_mismatch = []
        if ndet and digests:
            seeds = sorted(digests)[:ndet]
            pool2 = Pool(pid, max(1, min(a.workers // 2, 5)), hashseeds=[7777, 31337, 0])
            try:
                def on2(out):
                    nonlocal det_checked
                    if out.get('harness_error'):
                        stats['harness_errors'].append((out.get('seed'), out['harness_error']))
                        return
                    det_checked += 1
                    d0 = digests[out['seed']][0]
                    if out.get('digest') != d0:
                        det_mismatch.append((out['seed'], d0, out.get('digest')))
                pool2.run(({'seed': s} for s in seeds), on2)
            finally:
                pool2.close()
        stats['determinism_pairs_checked'] = det_checked
        if getattr(prop, 'HASHSEED_SENSITIVE', False) and det_mismatch:
            # for this property a result that depends on the hash seed IS the violation
            s0 = det_mismatch[0][0]
            violations.setdefault(
                pid + '/order-depends-on-hash-seed',
                ({'sig': pid + '/order-depends-on-hash-seed',
                  'msg': 'seed %s gives digest %s in one lane and %s under another '
                         'PYTHONHASHSEED' % det_mismatch[0]},
                 {'seed': s0, 'spec': prop.gen(s0)}))
            det_mismatch = []
        stats['determinism_mismatches'] = det_mismatch

        # violations -> known / new
        new = []
        known_hit = []
        for sig, (v, out) in sorted(violations.items()):
            k = known_match(known, pid, sig)
            if k:
                known_hit.append((sig, k))
            else:
                new.append((sig, v, out))
        replay_paths = []
        for sig, v, out in new[:5]:
            spec = out['spec']
            runs = 0
            if not a.no_minimise:
                spec, runs, v2 = minimise(pool, prop, pid, spec, sig,
                                          budget_s=cfg.get('minimise_s', 45))
                v = v2 or v
            path = write_replay(pid, sig, v, spec, out, runs)
            replay_paths.append((sig, path, v))
    finally:
        pool.close()

    wall = time.time() - t0
    for sig, k in known_hit:
        print('KNOWN-FINDING: property=%s %s -- %s' % (pid, sig, k.get('what', '')))
    for sig, path, v in replay_paths:
        print('VIOLATION property=%s replay=%s' % (pid, path))
        print('  signature: %s' % sig)
        print('  %s' % v.get('msg', '')[:600])
    if stats['harness_errors']:
        for s, e in stats['harness_errors'][:3]:
            print('HARNESS-ERROR seed=%s: %s' % (s, e[-800:]))
    if stats['determinism_mismatches']:
        print('HARNESS-ERROR nondeterministic seeds: %r' % stats['determinism_mismatches'][:5])
    if not a.no_evidence:
        stats['distinct_interleavings'] = len(interleavings)
        write_evidence(pid, prop, tier, base_seed, wall, stats, shapes, samples,
                       len(new), [s for s, _ in known_hit])
    print('%s %s: %d sim-runs (%d executions of the runner), %d distinct non-trivial shapes, '
          '%.1fs wall, %d new violation signature(s), %d known finding(s), %d harness error(s)'
          % (pid, tier, stats['evaluations'], stats['execs'], len(shapes), wall, len(new),
             len(known_hit), len(stats['harness_errors'])))
    if new:
        return 1
    if stats['harness_errors'] or stats['determinism_mismatches']:
        return 2
    return 0


def write_replay(pid, sig, v, spec, out, runs):
    rdir = os.environ.get('VERIF_REPLAY_DIR') or os.path.join(VERIF, 'replays')
    os.makedirs(rdir, exist_ok=True)
    h = hashlib.sha256(sig.encode()).hexdigest()[:8]
    path = os.path.join(rdir, '%s-%s-%s.json' % (pid, h, out.get('seed')))
    doc = {'property': pid, 'signature': sig, 'message': v.get('msg'), 'seed': out.get('seed'),
           'minimise_runs': runs, 'spec': spec,
           'digest': v.get('digest') or out.get('digest'),
           'repo_head': _repo_head()}
    with open(path, 'w') as f:
        json.dump(doc, f, indent=1, sort_keys=True)
    return path


def _repo_head():
    try:
        from . import boot
        return subprocess.check_output(['git', '-C', boot.REPO, 'rev-parse', '--short', 'HEAD'],
                                       stderr=subprocess.DEVNULL).decode().strip()
    except Exception:
        return None


def do_replay(a, pid, prop, known):
    with open(a.replay) as f:
        doc = json.load(f)
    pool = Pool(pid, 2, hashseeds=[1, 4242])
    outs = []
    try:
        pool.run(({'spec': doc['spec'], 'tag': i, 'want_sample': True} for i in range(2)),
                 outs.append, depth=1)
    finally:
        pool.close()
    rc = 0
    sigs = []
    for out in outs:
        if out.get('harness_error'):
            print('HARNESS-ERROR %s' % out['harness_error'][-1500:])
            return 2
        sigs.append(sorted(v['sig'] for v in out.get('violations') or []))
    if outs[0].get('digest') != outs[1].get('digest'):
        print('HARNESS-ERROR replay not deterministic: %s vs %s'
              % (outs[0].get('digest'), outs[1].get('digest')))
        return 2
    want = doc.get('signature')
    for v in outs[0].get('violations') or []:
        k = known_match(known, pid, v['sig'])
        if k:
            print('KNOWN-FINDING: property=%s %s -- %s' % (pid, v['sig'], k.get('what', '')))
            continue
        print('VIOLATION property=%s replay=%s' % (pid, a.replay))
        print('  signature: %s' % v['sig'])
        print('  %s' % v.get('msg', '')[:1500])
        rc = 1
    if want and want not in sigs[0]:
        print('replay: recorded signature %s NOT reproduced (digest %s)'
              % (want, outs[0].get('digest')))
    else:
        rec = doc.get('digest')
        same = '' if not rec else (' (identical to the recorded execution)'
                                   if rec == outs[0].get('digest')
                                   else ' (recorded digest %s: the code under test or the '
                                        'framework changed since)' % rec)
        print('replay: reproduced, digest %s%s' % (outs[0].get('digest'), same))
    return rc


def write_evidence(pid, prop, tier, seed, wall, stats, shapes, samples, nviol, known_hit):
    os.makedirs(os.path.join(VERIF, 'evidence'), exist_ok=True)
    ev = {
        'property_id': pid, 'tier': tier, 'seed': seed, 'level': 'exploration',
        'wall_s': round(wall, 2), 'violations': nviol,
        'coverage': {
            'evaluations': stats['evaluations'],
            'distinct_nontrivial': len(shapes),
            'rule': prop.RULE,
            'samples': samples or [{'note': 'no sample captured'}],
            'runner_executions': stats['execs'],
            'runs_per_hour': int(stats['evaluations'] / max(wall, 1e-6) * 3600),
            'simulated_seconds': round(stats['simtime'], 3),
            'scheduler_steps': stats['steps'],
            'distinct_interleavings': stats.get('distinct_interleavings', 0),
            'distinct_interleavings_rule': 'distinct digests of (scheduler event log, choice '
                                           'list) among executions that had child processes',
            'faults_fired': stats['faults'],
            'probes': stats['probes'],
            'modes': stats['modes'],
            'fault_runs': stats['fault_runs'],
            'fault_free_runs': stats['fault_free_runs'],
            'directed_cases': stats.get('directed', 0),
            'determinism_pairs_checked': stats.get('determinism_pairs_checked', 0),
            'harness_errors': len(stats['harness_errors']),
            'known_findings_hit': known_hit,
            'real_vs_stub': getattr(prop, 'REAL_VS_STUB', REAL_VS_STUB),
        },
        'assumptions': list(getattr(prop, 'ASSUMPTIONS', [])) + COMMON_ASSUMPTIONS,
    }
    path = os.path.join(VERIF, 'evidence', pid + '.json')
    with open(path, 'w') as f:
        json.dump(ev, f, indent=1, sort_keys=True)


REAL_VS_STUB = {
    'real': 'Runner, features, run_layer/setup_layer/tear_down_unneeded, TestResult, '
            'resume_tests, spawn_layer_in_subprocess, result collectors, SubProcess.report, '
            'Filter, Find, Shuffle, Listing, Statistics, OutputFormatter, unittest; layer '
            'children run the real runner in forked processes',
    'stub': 'Popen/pipes/kill/reap (tape-replaying actors), threads scheduled by baton, '
            'clocks, generated layers/tests driven by the plan',
}
COMMON_ASSUMPTIONS = [
    'the simulator runs on CPython 3.12.1 only (the only interpreter with the dependencies installed); C04, C05, C11 and C13 add directed real-process runs under CPython 3.9/3.10/3.11/3.13 where those interpreters are present (vsim/xpy.py)',
    'layer children are forked from a warmed interpreter (runner modules imported afresh), not '
    'exec()ed; a sample is cross-checked against real subprocesses in the thorough tier',
    'subunit output is not exercised (python-subunit is not installed); the --xml wrapper and the '
    'colour formatter are exercised as options',
    'threads switch at blocking calls, is_alive() and (one seed in four, at most 1500 times per '
    'execution) at lines of runner.py - not inside C code or other modules',
    'sampling, not enumeration: a clean batch is evidence, not proof',
]
