"""Cross-version tier: the same spec under interpreters of the other supported Python versions.

Only CPython 3.12 has the repository's dependencies installed, but they are pure Python (the C
accelerators are optional), so an interpreter of another version can borrow them
(VERIF_EXTRA_SITE, see boot.py).  The runs are REAL processes (fresh interpreters, real pipes and
children, no seam replaced - the machinery of the stub-validation tier): what they add is the
interpreter version as one more environment dimension.  `unittest` differs between versions
exactly where the runner hooks into it (startTest for decorator-skipped tests, subtests,
addDuration, the order of stopTest and cleanups), which is where defect F1 came from.

Observables of a real run are schedule-independent (per-process trace, listing, verdict); the
oracles applied to them are the same functions that judge the simulated runs.  An interpreter that
is missing or cannot import the runner is counted as a probe (`xpy_unavailable`), never judged.
"""
import glob
import os
import subprocess
import sys

from . import core

WANTED = ('3.9', '3.10', '3.11', '3.13')       # setup.py: python_requires >= 3.9, classifiers to 3.13
ROOTS = ('/root/.pyenv/versions',)
_found = None


def site_packages():
    for p in sys.path:
        if p.endswith('site-packages') and os.path.isdir(os.path.join(p, 'zope', 'interface')):
            return p
    return None


def interpreters():
    """[(version, path)] of the other supported versions present on this machine."""
    global _found
    if _found is None:
        _found = []
        if os.environ.get('VERIF_NO_XPY'):
            return _found
        for v in WANTED:
            for root in ROOTS:
                c = sorted(glob.glob(os.path.join(root, v + '.*', 'bin', 'python')))
                if c:
                    _found.append((v, c[-1]))
                    break
    return _found


class RealResult:
    """What the trace oracles look at, filled from a real execution."""
    hang = None
    raised = None


def execute(spec, options, scratch, python, timeout=120):
    """-> RealResult, or None when this interpreter cannot run the runner at all."""
    import json
    site = site_packages()
    if site is None:
        return None
    sub = os.path.join(scratch, 'xpy')
    os.makedirs(sub, exist_ok=True)
    specf = os.path.join(sub, 'spec.json')
    tracef = os.path.join(sub, 'trace.jsonl')
    with open(specf, 'w') as f:
        json.dump(spec, f)
    if os.path.exists(tracef):
        os.unlink(tracef)
    env = dict(os.environ, VERIF_SPEC_FILE=specf, VERIF_TRACE_FILE=tracef,
               VERIF_EXTRA_SITE=site, PYTHONDONTWRITEBYTECODE='1', PYTHONWARNINGS='ignore',
               PYTHONHASHSEED=str(spec.get('seed', 0) % 1000))
    env.pop('VSIM_PYC_DIR', None)
    try:
        p = subprocess.run([python, '-B', core.CHILD_SCRIPT] + list(options), env=env,
                           cwd=scratch, capture_output=True, timeout=timeout,
                           stdin=subprocess.DEVNULL)
    except (OSError, subprocess.TimeoutExpired):
        return None
    trace = []
    if os.path.exists(tracef):
        with open(tracef) as f:
            for line in f:
                line = line.strip()
                if line:
                    trace.append(json.loads(line))
    err = p.stderr.decode('utf-8', 'replace')
    if not trace and p.returncode not in (0, 1):
        return None                      # never got as far as the world: not a run to judge
    if 'ModuleNotFoundError' in err and not trace:
        return None
    r = RealResult()
    r.trace = trace
    r.options = list(options)
    r.all_options = list(options)
    r.exit = p.returncode
    r.verdict = p.returncode != 0
    r.text = core.ANSI_RE.sub('', p.stdout.decode('utf-8', 'replace'))
    r.stderr = err
    if p.returncode not in (0, 1):
        r.raised = ('exit status %d' % p.returncode, err[-300:], err[-1500:])
    return r
