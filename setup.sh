#!/bin/sh
# offline setup: nothing to fetch or build; verify the interpreter and that the runner imports
set -e
cd "$(dirname "$0")"
test -x /venv/bin/python
/venv/bin/python -c "import sys; sys.path.insert(0, '.'); from vsim import boot; boot.bootstrap(); print('vsim ok', boot.runner_file())"
mkdir -p evidence replays
# the simulated Lock/Event/Condition/Queue must work under the scheduler (20 seeded schedules)
/venv/bin/python -B tools/selftest_simsync.py 20
# informational: interpreters of the other supported Python versions for the cross-version tier
# (vsim/xpy.py; directed specs of C05, C11, C13).  Missing ones are skipped, never an error.
/venv/bin/python -B -c "import sys; sys.path.insert(0, '.'); from vsim import xpy; print('cross-version interpreters:', xpy.interpreters() or 'none found (tier silent)')" || true
