#!/usr/bin/env python3
"""Regenerate MANIFEST.json from the table below (keeps it valid and consistent)."""
import json
import os

HERE = os.path.dirname(os.path.dirname(os.path.abspath(__file__)))

NOTE = ('trusted base: the simulator (vsim/core.py scheduler, pipes, tape replay), the world '
        'generator, the unittest model (vsim/world.py predict_test, validated against every run by '
        'C05) and the reference selection model; the simulator runs on CPython 3.12.1 (C04/C05/C11/C13 add directed real-process runs under 3.9/3.10/3.11/3.13); children are forked from a '
        'warmed interpreter rather than exec()ed; sampling, not enumeration')

CHECKS = {
    'C01': ('worldsim', '5.1', 'layer-stack automaton replayed over the pid-tagged hook trace of seeded simulated runs with injected layer setUp/tearDown/NotImplementedError faults; failed set-ups of multi-base layers; tests owed after a NotImplementedError tear-down also under -x'),
    'C02': ('worldsim', '5.2', 'verdict of run_internal vs. ground truth of injected faults (tests, layers, imports, child death, spawn failure, truncated report) under the simulated process layer, both modes; slow children, transient pipe read errors, undecodable child output, line-level pre-emption of the worker threads'),
    'C04': ('worldsim', '5.4', 'exception injection at every test/layer phase in simulated runs; containment oracle on trace and output; directed specs re-run as real processes under CPython 3.9/3.10/3.11/3.13 (exit status, no traceback of the runner, summary)'),
    'C05': ('worldsim', '5.5', 'bracket automaton over testSetUp/testTearDown events of seeded simulated runs with injected outcome faults and a failing write to the runner\'s stdout at a seed-chosen point; directed specs re-run as real processes under CPython 3.9/3.10/3.11/3.13'),
    'C03': ('worldsim', '5.3', 'executed multiset over all pids vs. reference selection model, for --list-tests / sequential / simulated -j N / resumed executions of one spec (exactly-once across processes), also with a failed spawn, with sys.argv changed by a test before layers are resumed, and with overlapping -s search directories'),
    'C06': ('procsim', '5.6', 'seeded and directed (all k! forced completion orders, barrier, stalls) schedules of the real resume_tests/spawn threads over tape-replaying child actors; block/ordering oracle, alive<=N invariant at every spawn, bounded-progress by structural hang detection; line-level pre-emption of the parent\'s threads, failed spawns, slow parent stdout'),
    'C07': ('procsim', '5.7', 'channel fault injection on the simulated child processes (crash at every hook site incl. uncaught SystemExit/KeyboardInterrupt, truncation at every report offset, noise before/after the report, back-pressure, EINTR, spawn failures of several exception classes, a child that closes its pipes but lives on, a parent stdout that cannot encode or fails a write, helper threads that cannot be started, a failing read of a child\'s stderr, megabyte reports, line-level pre-emption); delivered-report oracle, deadlock detection by the scheduler'),
    'C10': ('ordersim', '5.10', 'the nondeterminism sources the statement names (discovery order, layer-object creation order/addresses, --layer option order, PYTHONHASHSEED lanes) are permuted by the simulator around the real Runner(found_suites=...); order invariants on the simulated runs; world specs with children that die silently and a worker thread that cannot be started'),
    'C11': ('worldsim', '5.11', 'simulated clocks with parent/child skew decide the default seed; order equality across list/sequential/-j N/resumed/--layer executions and reproduction from the reported seed; foreign draws from the global random generator injected between the lines of the shuffle; directed specs re-run as real processes (sequential, --list-tests, -j 2) under CPython 3.9/3.10/3.11/3.13 and compared with the simulated 3.12 order'),
    'C12': ('worldsim', '5.12', 'printed counts/lists vs. trace ground truth, and sequential vs. simulated -j N / resumed executions of the same spec; ^C in a half-run layer, undecodable child output, header-like noise on a child\'s real stderr'),
    'C13': ('worldsim', '5.13', 'token attribution over the merged stdout/stderr log and stream identity monitored inside hooks, over seeded outcome histories incl. tests that replace, close, stash and re-install the streams, nested in-process runs, output written by a thread that existed before the test, and directed plain --buffer histories re-run as real processes under CPython 3.9/3.10/3.11/3.13'),
    'C14': ('fssim', '5.14', 'find.os seam returns every directory in seeded enumeration orders over generated tmpfs trees; a directory that vanishes between the listing of its parent and the walk entering it; import-event history and listing order vs. reference discovery model'),
    'C15': ('fssim', '5.15', 'find.os seam (enumeration order, unlink faults: concurrent removal / permission, a concurrent writer creating source files mid-scan; after a failed unlink a run that goes on must have removed every other orphan; -s narrowing discovery) around the real --list-tests run on generated tmpfs trees; before/after disk snapshot vs. orphan model'),
    'C16': ('worldsim', '5.16', '"nothing starts after the first bad outcome" automaton per pid over seeded simulated -x runs (sequential, resumed with late child reports or a failing read of the child\'s stderr, failing tear-downs, --buffer)'),
    'C18': ('statesim', '5.18', 'interpreter-state snapshots around in-process runs whose test phase is ended by injected faults (exceptions escaping layer per-test hooks, KeyboardInterrupt, -x, -D/EndRun) under every subset of state-changing options; runs without a test phase, -j runs with failing children under line-level pre-emption, pre-existing trace function / gc state'),
    'C19': ('threadsim', '5.19', 'real leaked threads with simulator-allocated (recycled) thread idents behind threadsupport seams and seeded release points; threads that end when the runner sleeps; histories of runs in one interpreter (an earlier run with ignore patterns); leak-report oracle against the world\'s own thread table'),
}

NA = [
    ('C08', 'pure predicate on (patterns, name): no schedule, clock, fault or second party to simulate; its specification is only embedded in the C03 reference model'),
    ('C09', 'pure function of (suite tree, option integers); same as C08, embedded in the C03 reference model only'),
    ('C17', 'XML well-formedness over the Unicode input space: an input-space property with no interleaving, time or fault in it'),
    ('C20', 'sequential pure graph algorithm; deciding it is input enumeration, not simulation'),
]


def main():
    claimed = set(CHECKS)
    props = [json.loads(l)['id'] for l in open(os.path.join(HERE, 'properties.jsonl'))]
    na = list(NA)
    pending = [p for p in props if p not in claimed and p not in {x for x, _ in NA}]
    for p in pending:
        na.append((p, 'not claimed yet: the simulation engine for this property is not built; see DESIGN.md'))
    man = {
        'version': 1,
        'setup_cmd': './setup.sh',
        'hooks': {
            'guard': 'ZOPE_TESTRUNNER_VERIF',
            'enable': 'no source hooks: the simulator replaces module-global seams (runner.subprocess/threading/time, statistics.time, shuffle.time, find.os, threadsupport.*) at run time; nothing to build, checks import /repo/src directly',
            'baseline_off_cmd': 'cd /repo && /venv/bin/python -m pytest -ra -q -p no:cacheprovider --timeout=900 --continue-on-collection-errors',
            'source_commits': [],
            'add_only': True,
        },
        'engines': [
            {'name': 'worldsim', 'path': 'vsim/', 'serves_properties': sorted(p for p, v in CHECKS.items() if v[0] == 'worldsim'),
             'kind_free_text': 'deterministic simulation: real runner under a seeded baton scheduler over real threads, simulated pipes/processes/clock, generated worlds driven by a fault plan'},
            {'name': 'fssim', 'path': 'vsim/fssim.py', 'serves_properties': ['C14', 'C15'],
             'kind_free_text': 'generated tmpfs trees behind a find.os seam owning enumeration order and unlink faults; disk snapshots'},
            {'name': 'ordersim', 'path': 'vsim/props/c10.py', 'serves_properties': ['C10'],
             'kind_free_text': 'permutes discovery/creation/option order and hash-seed lanes around Runner(found_suites=...)'},
            {'name': 'statesim', 'path': 'vsim/props/c18.py', 'serves_properties': ['C18'],
             'kind_free_text': 'interpreter-state snapshots around fault-aborted in-process runs'},
            {'name': 'threadsim', 'path': 'vsim/threadsim.py', 'serves_properties': ['C19'],
             'kind_free_text': 'real threads, simulated thread-ident allocation and seeded release points behind threadsupport seams'},
            {'name': 'procsim', 'path': 'vsim/', 'serves_properties': sorted(p for p, v in CHECKS.items() if v[0] == 'procsim'),
             'kind_free_text': 'worldsim whose option vector creates children: scheduler decides every interleaving of parent threads and child actors, channel faults applied to the child tapes'},
        ],
        'checks': [],
        'not_applicable': [{'property_id': p, 'reason': r} for p, r in sorted(na)],
        'notes': 'deterministic simulation with fault injection; see DESIGN.md. exit 0 held / 1 VIOLATION / 2 harness error',
    }
    for p in sorted(CHECKS):
        eng, ref, tech = CHECKS[p]
        man['checks'].append({
            'property_id': p,
            'quick_cmd': './check %s --tier quick' % p,
            'thorough_cmd': './check %s --tier thorough' % p,
            'evidence_file': 'evidence/%s.json' % p,
            'replay_cmd_template': './check %s --replay {path}' % p,
            'engine': eng,
            'level_claimed': {
                'category': 'exploration',
                'text': 'seeded search over simulated executions (schedules, fault sequences, worlds, options) of the real runner code; a clean batch is evidence, not proof',
                'design_ref': 'DESIGN.md section ' + ref,
            },
            'level_note': NOTE,
            'technique': 'deterministic simulation with fault injection: ' + tech,
        })
    with open(os.path.join(HERE, 'MANIFEST.json'), 'w') as f:
        json.dump(man, f, indent=1)
    print('wrote MANIFEST.json with', len(man['checks']), 'checks,', len(na), 'not applicable')


if __name__ == '__main__':
    main()
