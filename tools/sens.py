#!/usr/bin/env python3
"""Sensitivity self-test: apply small mutants (plausible regressions that keep the pinned tests
green) to a scratch copy of /repo/src and confirm the named check reports a VIOLATION.
usage: tools/sens.py [PROPERTY ...]   (scratch copies live under /dev/shm and are removed)"""
import os
import shutil
import subprocess
import sys
import tempfile

HERE = os.path.dirname(os.path.dirname(os.path.abspath(__file__)))
R = 'src/zope/testrunner/runner.py'
P = 'src/zope/testrunner/process.py'
F = 'src/zope/testrunner/find.py'
S = 'src/zope/testrunner/shuffle.py'
FI = 'src/zope/testrunner/filter.py'
TS = 'src/zope/testrunner/threadsupport.py'

# (name, property, file, old, new)
MUTANTS = [
    ('print-results-as-they-finish', 'C06', R,
     "        while current_result and current_result.done:\n",
     "        for current_result in [r for r in results if r.done and not getattr(r, '_p', 0)][:1]:\n            current_result._p = 1\n"),
    ('one-more-than-N', 'C06', R,
     "while len(running_threads) < options.processes and ready_threads:",
     "while len(running_threads) <= options.processes and ready_threads:"),
    ('serialise-children', 'C06', R,
     "while len(running_threads) < options.processes and ready_threads:",
     "while len(running_threads) < 1 and ready_threads:"),
    ('keep-dots-in-deferred', 'C06', R,
     "        if not _is_dots(out):\n            self.stdout.append(out)",
     "        if True:\n            self.stdout.append(out.upper())"),
    ('forget-layer-in-setup_layers', 'C01', R,
     "        finally:\n            del setup_layers[layer]",
     "        finally:\n            pass"),
    ('teardown-not-reversed', 'C01', R,
     "    unneeded = order_by_bases(unneeded)\n    unneeded.reverse()",
     "    unneeded = order_by_bases(unneeded)"),
    ('mark-layer-before-setUp', 'C01', R,
     "        output.start_set_up(name_from_layer(layer))\n",
     "        output.start_set_up(name_from_layer(layer))\n        setup_layers[layer] = 1\n"),
    ('failed-ignores-errors', 'C02', R,
     "self.failed = bool(self.import_errors or self.failures or self.errors)",
     "self.failed = bool(self.import_errors or self.failures)"),
    ('no-error-for-missing-report', 'C02', R,
     '            errors.append(("subprocess for %s" % layer_name, None))\n            if options.verbose >= 1:',
     '            if options.verbose >= 1:'),
    ('layer-failure-not-contained', 'C04', R,
     "    except Exception:\n        handle_layer_failure(SetUpLayerFailure(layer), output, errors)\n        return 0",
     "    except KeyError:\n        handle_layer_failure(SetUpLayerFailure(layer), output, errors)\n        return 0"),
    ('testTearDown-forward', 'C05', R,
     "        for layer in self.layers[-1::-1]:\n            if hasattr(layer, 'testTearDown'):",
     "        for layer in self.layers:\n            if hasattr(layer, 'testTearDown'):"),
    # (machinery test of the cross-version tier: a result method that fails below 3.12 only)
    ('addSkip-breaks-on-older-pythons', 'C04', R,
     "    def addSkip(self, test, reason):\n",
     "    def addSkip(self, test, reason):\n        if sys.version_info < (3, 12):\n            reason = reason.decode('ascii')\n"),
    # breaks only under interpreters older than the one the simulator itself runs on: must be
    # caught by the cross-version tier (real processes under 3.9/3.10/3.11)
    ('per-test-teardown-skipped-on-older-pythons', 'C05', R,
     "        for layer in self.layers[-1::-1]:\n            if hasattr(layer, 'testTearDown'):",
     "        for layer in self.layers[-1::-1]:\n            if hasattr(layer, 'testTearDown') and sys.version_info >= (3, 12):"),
    ('summary-counts-failures-only', 'C12', R,
     "        n_failures += len(result.unexpectedSuccesses)\n",
     "        pass\n"),
    ('sum-ran-drops-last', 'C12', R,
     "    return sum(r.num_ran for r in results)",
     "    return sum(r.num_ran for r in results[:-1]) + (results[-1].num_ran and 1)"),
    ('restore-skipped-on-success', 'C13', R,
     "    def addSuccess(self, test):\n        self._restoreStdStreams()",
     "    def addSuccess(self, test):\n        print(self._restoreStdStreams()[0] or '', end='')"),
    ('no-stderr-reader-thread', 'C07', R,
     "        stderr_thread.start()\n",
     "        stderr_thread.run()\n"),
    ('trust-partial-report', 'C07', R,
     "            result.num_ran = 0\n            errors.append((\"subprocess for %s\" % layer_name, None))\n            output.error_with_banner(\n                \"Incomplete report",
     "            failures.extend(new_failures)\n            output.error_with_banner(\n                \"Incomplete report"),
    ('eintr-not-retried', 'C07', R,
     "                if e.errno == errno.EINTR:\n",
     "                if e.errno == errno.EINTR:\n                    raise\n"),
    ('at-level-strict', 'C03', F,
     "            if options.at_level <= 0 or level <= options.at_level:",
     "            if options.at_level <= 0 or level < options.at_level:"),
    ('child-keeps-all-layers', 'C03', FI,
     "                if name != self.runner.options.resume_layer:\n                    layers.pop(name)",
     "                if False:\n                    layers.pop(name)"),
    ('listing-unordered', 'C03', 'src/zope/testrunner/listing.py',
     "            self.runner.options.output.list_of_tests(tests, layer_name)",
     "            self.runner.options.output.list_of_tests(sorted(tests, key=str), layer_name)"),
    ('negated-pattern-ignored', 'C03', FI,
     "        return (any(search(value) for search in selected) and not\n                any(search(value) for search in unselected))",
     "        return any(search(value) for search in selected)"),
    ('shuffle-seed-varies-per-child', 'C11', S,
     "        rng = random.Random(self.seed)\n",
     "        rng = random.Random(self.seed)\n        self.seed += (self.runner.options.resume_number or 0)\n"),
    # (machinery test of the cross-version tier: differs only under interpreters older than 3.11)
    ('shuffle-differs-on-older-pythons', 'C11', S,
     "            floor = math.floor\n",
     "            floor = math.floor\n            if __import__('sys').version_info < (3, 11):\n                tests.reverse()\n"),
    ('shuffle-after-filter', 'C11', R,
     "        self.features.append(zope.testrunner.shuffle.Shuffle(self))\n        self.features.append(zope.testrunner.process.SubProcess(self))\n        self.features.append(zope.testrunner.filter.Filter(self))",
     "        self.features.append(zope.testrunner.process.SubProcess(self))\n        self.features.append(zope.testrunner.filter.Filter(self))\n        self.features.append(zope.testrunner.shuffle.Shuffle(self))"),
    ('shuffle-drops-a-test', 'C11', S,
     "            self.runner.tests_by_layer_name[layer] = suite.__class__(tests)",
     "            self.runner.tests_by_layer_name[layer] = suite.__class__(tests[1:] if len(tests) > 3 else tests)"),
    ('no-stream-restore-in-stopTest', 'C18', R,
     "        try:\n            self._restoreStdStreams()\n        finally:\n"
     "            if self.options.buffer:",
     "        if True:\n            pass\n        if True:\n"
     "            if False:"),
    ('stream-restore-not-in-finally', 'C13', R,
     "        try:\n            self._restoreStdStreams()\n        finally:\n"
     "            if self.options.buffer:",
     "        self._restoreStdStreams()\n        if True:\n"
     "            if self.options.buffer:"),
    ('coverage-forgets-previous-tracer', 'C18', 'src/zope/testrunner/coverage.py',
     "            sys.settrace(previous)\n            threading.settrace(previous_threading)",
     "            sys.settrace(None)\n            threading.settrace(None)"),
    ('list-only-skips-feature-teardown', 'C18', R,
     "                for feature in reversed(self.features):\n"
     "                    feature.global_teardown()",
     "                for feature in reversed(self.features):\n"
     "                    if self.do_run_tests:\n"
     "                        feature.global_teardown()"),
    ('count-test-cases-ignored', 'C12', R,
     "        self.testsRun = testsRun + count", "        self.testsRun = testsRun + 1"),
    ('child-started-through-realpath', 'C06', 'src/zope/testrunner/__init__.py',
     "        script_parts[0] = os.path.abspath(script_parts[0])",
     "        script_parts[0] = os.path.realpath(script_parts[0])"),
    ('gc-threshold-not-restored', 'C18', 'src/zope/testrunner/garbagecollection.py',
     "        gc.set_threshold(*self.old_threshold)", "        pass"),
    ('teardown-not-in-finally', 'C18', R,
     "            try:\n                if self.do_run_tests:\n                    self.run_tests()\n            finally:\n",
     "            if self.do_run_tests:\n                self.run_tests()\n            if True:\n"),
    ('tb-format-not-restored', 'C18', 'src/zope/testrunner/tb_format.py',
     "        traceback.print_exception = self.old_print", "        pass"),
    ('warnings-not-scoped', 'C18', R,
     "        with warnings.catch_warnings():\n            if self.warnings:",
     "        if True:\n            if self.warnings:"),
    ('thread-snapshot-only-once', 'C19', R,
     "        self._threads = threadsupport.enumerate()\n        self._start_time = time.time()\n\n        self._setUpStdStreams()",
     "        if not hasattr(self, '_threads'):\n            self._threads = threadsupport.enumerate()\n        self._start_time = time.time()\n\n        self._setUpStdStreams()"),
    ('ignore-pattern-search', 'C19', R,
     "                if not any([re.match(p, t.name)",
     "                if not any([re.search(p, t.name)"),
    ('proxy-eq-by-name', 'C19', TS,
     "        return self.thread is other.thread",
     "        return self.thread.name == other.thread.name"),
    ('delete-all-bytecode', 'C15', F,
     "if file[-4:] in compiled_suffixes and file[:-1] not in files:",
     "if file[-4:] in compiled_suffixes:"),
    ('recurse-into-pycache', 'C15', F,
     "                dirs.remove('__pycache__')", "                pass"),
    ('suffix-without-dot', 'C15', F,
     "if file[-4:] in compiled_suffixes and file[:-1] not in files:",
     "if file[-3:] in ('pyc', 'pyo') and file[:-1] not in files:"),
    ('usecompiled-does-not-keep', 'C15', 'src/zope/testrunner/options.py',
     "        options.keepbytecode = options.usecompiled", "        pass"),
    ('only-first-root-cleaned', 'C15', F,
     "    for (p, _) in options.test_path:\n        for dirname, dirs, files in walk_with_symlinks(options, p):\n            if '__pycache__' in dirs:",
     "    for (p, _) in options.test_path[:1]:\n        for dirname, dirs, files in walk_with_symlinks(options, p):\n            if '__pycache__' in dirs:"),
    ('walk-not-sorted', 'C14', F,
     "        dirs.sort()\n        files.sort()\n", "        pass\n"),
    ('winners-not-sorted', 'C14', F,
     "            winners = sorted(root2ext.values())", "            winners = list(root2ext.values())"),
    ('no-dedup-of-overlapping-paths', 'C14', F,
     "        if f not in found:\n            found[f] = 1\n            yield f, package",
     "        if True:\n            yield f, package"),
    ('non-identifier-dirs-searched', 'C14', F,
     "                d for d in dirs if identifier(d) and d not in IGNORE_FOLDERS",
     "                d for d in dirs if d not in IGNORE_FOLDERS"),
    ('module-filter-after-import', 'C14', F,
     "                if accept is not None and not accept(module_name):\n                    continue\n\n                try:\n                    module = import_name(module_name)",
     "                try:\n                    module = import_name(module_name)\n                    if accept is not None and not accept(module_name):\n                        break"),
    ('tests-package-without-init', 'C14', F,
     "            if tests_pattern(d) and contains_init_py(options, files):",
     "            if tests_pattern(d):"),
    ('layers-not-sorted', 'C10', R,
     "    layers = sorted(layers, key=layer_sort_key, reverse=True)\n",
     "    layers = list(layers)\n"),
    ('sort-by-address', 'C10', R,
     "    layers = sorted(layers, key=layer_sort_key, reverse=True)\n",
     "    layers = sorted(layers, key=id, reverse=True)\n"),
    ('sort-by-name-hash', 'C10', R,
     "    layers = sorted(layers, key=layer_sort_key, reverse=True)\n",
     "    layers = sorted(layers, key=lambda ly: hash(name_from_layer(ly)), reverse=True)\n"),
    ('unit-layer-sorted-like-others', 'C10', R,
     "        return tuple(name_from_layer(ly) for ly in key if ly != UnitTests)",
     "        return tuple(name_from_layer(ly) for ly in key)"),
    ('gathered-not-reversed', 'C10', R,
     "        gather_layers(layer, gathered)\n    gathered.reverse()",
     "        gather_layers(layer, gathered)"),
    ('stop-only-on-errors', 'C16', R,
     "            failure_or_error = None\n", "            failure_or_error = None\n"),
]


def main():
    want = set(a.upper() for a in sys.argv[1:])
    ok = True
    for name, prop, path, old, new in MUTANTS:
        if want and prop not in want:
            continue
        if old == new:
            continue
        scratch = tempfile.mkdtemp(prefix='mut-', dir='/dev/shm')
        try:
            shutil.copytree('/repo/src', os.path.join(scratch, 'src'))
            fp = os.path.join(scratch, path)
            s = open(fp).read()
            if old not in s:
                print('%-34s %s  SKIP (pattern not found)' % (name, prop))
                ok = False
                continue
            open(fp, 'w').write(s.replace(old, new, 1))
            env = dict(os.environ, VERIF_REPO=scratch,
                       VERIF_REPLAY_DIR=os.path.join(scratch, 'replays'))
            p = subprocess.run([os.path.join(HERE, 'check'), prop, '--seeds', '600',
                                '--no-evidence', '--no-minimise', '--seconds', '60'],
                               env=env, capture_output=True, text=True, cwd=HERE)
            sigs = [l.strip() for l in p.stdout.splitlines() if 'signature:' in l]
            print('%-34s %s  exit %d  %s' % (name, prop, p.returncode,
                                             'KILLED' if p.returncode == 1 else 'SURVIVED'),
                  sigs[:2])
            if p.returncode != 1:
                ok = False
                print(p.stdout[-600:], p.stderr[-600:])
            else:
                # keep one killing spec per mutant as a regression seed
                rd = os.path.join(scratch, 'replays')
                dst = os.path.join(HERE, 'corpus', '%s-mutant-%s.json' % (prop, name))
                if os.path.isdir(rd) and os.listdir(rd) and not os.path.exists(dst):
                    os.makedirs(os.path.dirname(dst), exist_ok=True)
                    shutil.copy(os.path.join(rd, sorted(os.listdir(rd))[0]), dst)
        finally:
            shutil.rmtree(scratch, ignore_errors=True)
    return 0 if ok else 1


if __name__ == '__main__':
    sys.exit(main())
