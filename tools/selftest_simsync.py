#!/usr/bin/env python3
"""Self-test of the simulated synchronisation primitives under the baton scheduler:
producer/consumer over a blocking Queue, Condition wait/notify, Semaphore, Lock, timeouts in
virtual time; every seed must terminate with the expected result and no structural hang.
usage: /venv/bin/python -B tools/selftest_simsync.py [nseeds]"""
import os
import sys

sys.path.insert(0, os.path.dirname(os.path.dirname(os.path.abspath(__file__))))
from vsim import boot  # noqa: E402
boot.bootstrap()
from vsim import core  # noqa: E402


def scenario(seed):
    spec = {'world': {'layers': [], 'modules': []}, 'plan': []}
    env = core.Env(spec, {'prng': seed}, {})
    ns = core.sim_namespaces(env)
    T, Q = ns['threading'], ns['queue']
    q = Q.Queue(maxsize=2)
    done = []
    lock = T.Lock()
    cond = T.Condition()
    sem = T.Semaphore(0)
    state = {'ready': False, 'sum': 0}

    def producer():
        for i in range(6):
            q.put(i)            # blocks when 2 items are waiting
        q.put(None)

    def consumer():
        while True:
            x = q.get()         # blocks when empty
            if x is None:
                break
            with lock:
                state['sum'] += x
            env.clock.sleep(0.01)
        with cond:
            state['ready'] = True
            cond.notify_all()
        sem.release()

    def waiter():
        with cond:
            ok = cond.wait_for(lambda: state['ready'], timeout=100.0)
        done.append(('waiter', ok))

    def impatient():
        ev = T.Event()
        t0 = env.clock.now
        got = ev.wait(0.5)      # nobody sets it: must time out after 0.5 virtual seconds
        done.append(('impatient', got, round(env.clock.now - t0, 1) >= 0.5))

    threads = [T.Thread(target=f) for f in (producer, consumer, waiter, impatient)]
    for t in threads:
        t.start()
    assert sem.acquire(timeout=1000.0)
    for t in threads:
        t.join()
    env.sched.active = False
    assert state['sum'] == 15, state
    assert ('waiter', True) in done, done
    assert ('impatient', False, True) in done, done
    assert not env.sched.thread_excs, env.sched.thread_excs
    return len(env.sched.choices)


if __name__ == '__main__':
    n = int(sys.argv[1]) if len(sys.argv) > 1 else 200
    lens = set()
    for seed in range(n):
        lens.add(scenario(seed))
    print('simsync self-test ok: %d seeds, %d distinct choice-list lengths' % (n, len(lens)))
