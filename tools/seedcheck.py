#!/usr/bin/env python3
"""Verify a seeded breaking change and run checks against it.

usage: tools/seedcheck.py <seed-dir> [--checks C03,C12] [--seeds N]
  <seed-dir> holds patch.diff, demo.py, meta.json (e.g. /tmp/wt-C03/SEEDED or seeded/C03-1).
Steps: (1) the patch applies to /repo; (2) pinned suite still 42 passed; (3) demo FAILs with the
patch and PASSes without (run in a scratch worktree with zt_boot.py); (4) each named check run with
the patch applied to /repo (quick tier); then /repo is restored (git checkout -- .).
"""
import argparse
import json
import os
import shutil
import subprocess
import sys
import tempfile

HERE = os.path.dirname(os.path.dirname(os.path.abspath(__file__)))


def sh(cmd, **kw):
    return subprocess.run(cmd, shell=True, capture_output=True, text=True, **kw)


def main():
    ap = argparse.ArgumentParser()
    ap.add_argument('seeddir')
    ap.add_argument('--checks', default='')
    ap.add_argument('--seeds', default='')
    ap.add_argument('--skip-demo', action='store_true')
    ap.add_argument('--keep-corpus', action='store_true',
                    help='minimise and keep one killing spec per check as corpus/<check>-seeded-<id>.json')
    ap.add_argument('--skip-suite', action='store_true',
                    help='do not touch /repo at all (e.g. while a background sweep reads it)')
    a = ap.parse_args()
    sd = os.path.abspath(a.seeddir)
    patch = os.path.join(sd, 'patch.diff')
    meta = json.load(open(os.path.join(sd, 'meta.json')))
    prop = meta.get('property')
    checks = [c for c in a.checks.split(',') if c] or [prop]
    assert a.skip_suite or sh('git -C /repo status --porcelain').stdout.strip() == '', '/repo not clean'
    result = {'property': prop, 'checks': {}}
    # demo in a scratch worktree
    if not a.skip_demo:
        wt = tempfile.mkdtemp(prefix='seedwt-', dir='/tmp')
        os.rmdir(wt)
        sh('git -C /repo worktree add -q %s HEAD' % wt)
        try:
            shutil.copy('/tmp/seedwork/zt_boot.py', wt) if os.path.exists('/tmp/seedwork/zt_boot.py') \
                else shutil.copy(os.path.join(HERE, 'seeded', 'zt_boot.py'), wt)
            # round-3 demos locate the worktree root from SEEDED/<letter>/demo.py
            sub = 'SEEDED/' + meta['letter'] if meta.get('layout') == 'nested' else 'SEEDED'
            shutil.copytree(sd, os.path.join(wt, sub))
            r0 = sh('/venv/bin/python zt_boot.py %s/demo.py' % sub, cwd=wt, timeout=600)
            ap_ = sh('git apply %s/patch.diff' % sub, cwd=wt)
            r1 = sh('/venv/bin/python zt_boot.py %s/demo.py' % sub, cwd=wt, timeout=600)
            # the pinned suite inside the scratch worktree, imports bound to the worktree's
            # sources (zt_boot): every test of BASELINE.stable_pass must still pass
            junit = os.path.join(wt, 'junit.xml')
            t = sh('/venv/bin/python -W ignore -c "import zt_boot, pytest, sys; '
                   "sys.exit(pytest.main(['-q', '-p', 'no:cacheprovider', '--timeout=900', "
                   "'--continue-on-collection-errors', '--junitxml=%s']))\" 2>&1 | tail -1" % junit,
                   cwd=wt, timeout=900)
            result['suite_in_worktree'] = t.stdout.strip()
            try:
                import xml.etree.ElementTree as ET
                passed = set()
                for tc in ET.parse(junit).getroot().iter('testcase'):
                    if not list(tc):
                        passed.add('%s::%s' % (tc.get('classname'), tc.get('name')))
                want = set(json.load(open('/root/.vp/BASELINE.json'))['stable_pass'])
                result['pinned_passed'] = '%d of %d' % (len(want & passed), len(want))
                if want - passed:
                    result['pinned_missing'] = sorted(want - passed)[:5]
            except Exception as e:  # noqa
                result['pinned_passed'] = 'could not read junit: %r' % (e,)
            result['demo_without'] = (r0.returncode, (r0.stdout + r0.stderr)[-200:])
            result['demo_with'] = (r1.returncode, (r1.stdout + r1.stderr)[-300:])
            result['patch_applies'] = ap_.returncode == 0
        finally:
            sh('git -C /repo worktree remove --force %s' % wt)
    # (2) the pinned suite on /repo itself with the patch applied, undone straight afterwards
    if a.skip_suite:
        result['suite'] = 'skipped'
    else:
      try:
        r = sh('git -C /repo apply %s' % patch)
        assert r.returncode == 0, r.stderr
        t = sh('cd /repo && /venv/bin/python -m pytest -q -p no:cacheprovider --timeout=900 '
               '--continue-on-collection-errors 2>&1 | tail -1')
        result['suite'] = t.stdout.strip()
      finally:
        sh('git -C /repo checkout -- .')
    # (4) the checks against a scratch copy of the sources with the patch applied
    scratch = tempfile.mkdtemp(prefix='seed-', dir='/dev/shm')
    try:
        shutil.copytree('/repo/src', os.path.join(scratch, 'src'))
        r = sh('git apply --directory=%s --unsafe-paths %s' % (scratch, patch), cwd=scratch)
        if r.returncode != 0:
            r = sh('patch -p1 -d %s < %s' % (scratch, patch))
        assert r.returncode == 0, r.stdout + r.stderr
        for c in checks:
            cmd = '%s/check %s --tier quick --no-evidence%s' % (
                HERE, c, '' if a.keep_corpus else ' --no-minimise')
            if a.seeds:
                cmd += ' --seeds %s' % a.seeds
            env = dict(os.environ, VERIF_REPO=scratch,
                       VERIF_REPLAY_DIR=os.path.join(scratch, 'replays'))
            r = sh(cmd, env=env, cwd=HERE, timeout=1800)
            sigs = [l.strip()[11:] for l in r.stdout.splitlines()
                    if l.strip().startswith('signature:')]
            result['checks'][c] = {'exit': r.returncode, 'signatures': sigs[:6],
                                   'tail': r.stdout.strip().splitlines()[-1:]}
            rd = os.path.join(scratch, 'replays')
            if a.keep_corpus and r.returncode == 1 and os.path.isdir(rd) and os.listdir(rd):
                dst = os.path.join(HERE, 'corpus', '%s-seeded-%s.json'
                                   % (c, os.path.basename(sd)))
                if not os.path.exists(dst):
                    smallest = min((os.path.join(rd, f) for f in os.listdir(rd)),
                                   key=os.path.getsize)
                    shutil.copy(smallest, dst)
                    result['checks'][c]['corpus'] = os.path.basename(dst)
                shutil.rmtree(rd, ignore_errors=True)
    finally:
        shutil.rmtree(scratch, ignore_errors=True)
    print(json.dumps(result, indent=1))
    return 0


if __name__ == '__main__':
    sys.exit(main())
