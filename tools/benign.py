#!/usr/bin/env python3
"""False-alarm self-test: apply PROPERTY-PRESERVING refactorings (the kind of change a maintainer
makes without touching any listed property) to a scratch copy of /repo/src and confirm that the
named checks stay quiet (exit 0).  The counterpart of tools/sens.py.

usage: tools/benign.py [NAME-SUBSTRING ...]   (scratch copies live under /dev/shm and are removed)
"""
import os
import shutil
import subprocess
import sys
import tempfile

HERE = os.path.dirname(os.path.dirname(os.path.abspath(__file__)))
R = 'src/zope/testrunner/runner.py'
ST = 'src/zope/testrunner/statistics.py'
SH = 'src/zope/testrunner/shuffle.py'
FO = 'src/zope/testrunner/formatter.py'

# (name, checks, [(file, old, new, count), ...])
REFACTORINGS = [
    ('from-imports-for-process-and-thread', 'C06 C07 C02',
     [(R, "import subprocess\n", "import subprocess\nfrom subprocess import Popen\n", 1),
      (R, "import threading\n", "import threading\nfrom threading import Thread\n", 1),
      (R, "child = subprocess.Popen(", "child = Popen(", 1),
      (R, "ready_threads.append(threading.Thread(", "ready_threads.append(Thread(", 1),
      (R, "stderr_thread = threading.Thread(", "stderr_thread = Thread(", 1)]),
    ('from-time-import-sleep-and-time', 'C06 C11 C12',
     [(R, "import time\n", "import time\nfrom time import sleep\nfrom time import time as now\n",
       1),
      (R, "time.sleep(0.01)", "sleep(0.01)", 1),
      (R, "self._start_time = time.time()", "self._start_time = now()", 2),
      (ST, "import time\n", "import time\nfrom time import time as _now\n", 1),
      (ST, "time.time()", "_now()", -1),
      (SH, "import time\n", "from time import time as _clock\n", 1),
      (SH, "time.time()", "_clock()", -1)]),
    # (C06 only: under C07's 'detach' fault - a child that closes its pipes but lives on -
    # waiting without killing really hangs the parent: that is seeded change C07-4)
    ('wait-instead-of-kill-communicate', 'C06',
     [(R, "            child.kill()\n            child.communicate()",
       "            child.stdout.close()\n            child.stderr.close()\n"
       "            if child.stdin is not None:\n                child.stdin.close()\n"
       "            child.wait()", 1)]),
    ('stdin-devnull', 'C06 C07',
     [(R, "args, shell=False, stdin=subprocess.PIPE,",
       "args, shell=False, stdin=subprocess.DEVNULL,", 1)]),
    ('daemon-kwarg-and-join-timeout-loop', 'C06 C07',
     [(R, "            target=reader_thread, args=(child.stderr, stderr_buf))\n"
          "        stderr_thread.daemon = True\n",
       "            target=reader_thread, args=(child.stderr, stderr_buf),\n"
       "            daemon=True)\n", 1),
      (R, "        stderr_thread.join()\n",
       "        while stderr_thread.is_alive():\n            stderr_thread.join(0.5)\n", 1)]),
    ('worker-thread-subclass', 'C06 C07',
     [(R, "def resume_tests(script_parts, options, features, layers, failures, errors,\n",
       "class _LayerThread(threading.Thread):\n"
       "    def __init__(self, *args):\n"
       "        threading.Thread.__init__(self)\n"
       "        self.spawn_args = args\n\n"
       "    def run(self):\n"
       "        spawn_layer_in_subprocess(*self.spawn_args)\n\n\n"
       "def resume_tests(script_parts, options, features, layers, failures, errors,\n", 1),
      (R, "        ready_threads.append(threading.Thread(\n"
          "            target=spawn_layer_in_subprocess,\n"
          "            args=(result, script_parts, options, features, layer_name, layer,\n"
          "                  failures, errors, skipped, resume_number, cwd)))\n",
       "        ready_threads.append(_LayerThread(\n"
       "            result, script_parts, options, features, layer_name, layer,\n"
       "            failures, errors, skipped, resume_number, cwd))\n", 1)]),
    ('poll-interval-and-lock-around-lists', 'C06 C07 C02',
     [(R, "        time.sleep(0.01)  # Keep the loop from being too tight.",
       "        time.sleep(0.05)  # Keep the loop from being too tight.", 1),
      (R, "def spawn_layer_in_subprocess(result, script_parts, options, features,\n",
       "_lists_lock = threading.Lock()\n\n\n"
       "def spawn_layer_in_subprocess(result, script_parts, options, features,\n", 1),
      (R, "            failures.extend(new_failures)\n            errors.extend(new_errors)\n",
       "            with _lists_lock:\n"
       "                failures.extend(new_failures)\n"
       "                errors.extend(new_errors)\n", 1)]),
    ('event-instead-of-polling-is-alive', 'C06 C07',
     [(R, "    finally:\n        result.done = True\n",
       "    finally:\n        result.done = True\n        _wakeup.set()\n", 1),
      (R, "def spawn_layer_in_subprocess(result, script_parts, options, features,\n",
       "_wakeup = threading.Event()\n\n\n"
       "def spawn_layer_in_subprocess(result, script_parts, options, features,\n", 1),
      (R, "        time.sleep(0.01)  # Keep the loop from being too tight.",
       "        _wakeup.wait(0.01)  # Keep the loop from being too tight.\n"
       "        _wakeup.clear()", 1)]),
    ('child-flushes-stdout-instead-of-closing-it', 'C06 C07 C02',
     [('src/zope/testrunner/process.py', "        sys.stdout.close()\n",
       "        sys.stdout.flush()\n", 1)]),
    ('threadsupport-asks-sys-directly', 'C19',
     [('src/zope/testrunner/threadsupport.py', "        running = set(current_frames())",
       "        running = set(sys._current_frames())", 1)]),
    ('find-walks-with-scandir', 'C14 C15',
     [('src/zope/testrunner/find.py', "    for dirpath, dirs, files in os.walk(dir):\n",
       "    for dirpath, dirs, files in _walk(dir):\n", 1),
      ('src/zope/testrunner/find.py', "def walk_with_symlinks(options, dir):\n",
       "def _walk(top):\n"
       "    dirs, files = [], []\n"
       "    with os.scandir(top) as it:\n"
       "        for entry in it:\n"
       "            (dirs if entry.is_dir() else files).append(entry.name)\n"
       "    yield top, dirs, files\n"
       "    for d in dirs:\n"
       "        p = os.path.join(top, d)\n"
       "        if not os.path.islink(p):\n"
       "            yield from _walk(p)\n\n\n"
       "def walk_with_symlinks(options, dir):\n", 1)]),
    ('tear-down-in-reverse-set-up-order', 'C01 C04 C16',
     [(R, "    unneeded = order_by_bases(unneeded)\n    unneeded.reverse()",
       "    unneeded = [ly for ly in reversed(list(setup_layers)) if ly in unneeded]", 1)]),
    ('stale-bytecode-collected-per-directory', 'C15',
     [('src/zope/testrunner/find.py',
       "            for file in files:\n"
       "                if file[-4:] in compiled_suffixes and file[:-1] not in files:\n"
       "                    fullname = os.path.join(dirname, file)\n"
       "                    options.output.info(\"Removing stale bytecode file %s\"\n"
       "                                        % fullname)\n"
       "                    os.unlink(fullname)\n",
       "            stale = [os.path.join(dirname, file) for file in files\n"
       "                     if file[-4:] in compiled_suffixes\n"
       "                     and file[:-1] not in files]\n"
       "            for fullname in stale:\n"
       "                options.output.info(\"Removing stale bytecode file %s\"\n"
       "                                    % fullname)\n"
       "                os.unlink(fullname)\n", 1)]),
    ('argv-copied-with-list', 'C03',
     [(R, "            self.args = sys.argv[:]", "            self.args = list(sys.argv)", 1)]),
    ('shuffle-rng-seeded-after-construction', 'C11',
     [(SH, "        rng = random.Random(self.seed)",
       "        rng = random.Random()\n        rng.seed(self.seed)", 1)]),
    ('coverage-previous-tracer-in-two-attributes', 'C18',
     [('src/zope/testrunner/coverage.py',
       "            previous, previous_threading = self._previous\n",
       "            previous = self._previous[0]\n"
       "            previous_threading = self._previous[1]\n", 1)]),
    ('worker-reports-under-a-lock', 'C18 C07 C06',
     [(R, "def spawn_layer_in_subprocess(result, script_parts, options, features,\n",
       "_report_lock = threading.Lock()\n\n\n"
       "def spawn_layer_in_subprocess(result, script_parts, options, features,\n", 1),
      (R, "            output.error_with_banner(errmsg)\n",
       "            with _report_lock:\n"
       "                output.error_with_banner(errmsg)\n", 1)]),
    ('summary-wording-untouched-but-helper-extracted', 'C12 C04 C02',
     [(R, "    # Return the total number of tests run.\n    return sum(r.num_ran for r in results)",
       "    # Return the total number of tests run.\n    total = 0\n"
       "    for r in results:\n        total += r.num_ran\n    return total", 1)]),
]


def main():
    want = [a for a in sys.argv[1:]]
    ok = True
    for name, checks, edits in REFACTORINGS:
        if want and not any(w in name for w in want):
            continue
        scratch = tempfile.mkdtemp(prefix='benign-', dir='/dev/shm')
        try:
            shutil.copytree('/repo/src', os.path.join(scratch, 'src'))
            bad = False
            for path, old, new, count in edits:
                fp = os.path.join(scratch, path)
                s = open(fp).read()
                if old not in s:
                    print('%-48s SKIP (pattern not found: %r)' % (name, old[:40]))
                    bad = True
                    break
                open(fp, 'w').write(s.replace(old, new, count) if count > 0
                                    else s.replace(old, new))
            if bad:
                ok = False
                continue
            r = subprocess.run(['/venv/bin/python', '-m', 'py_compile'] +
                               sorted({os.path.join(scratch, e[0]) for e in edits}),
                               capture_output=True, text=True)
            if r.returncode:
                print('%-48s does not compile: %s' % (name, r.stderr[-300:]))
                ok = False
                continue
            for c in checks.split():
                env = dict(os.environ, VERIF_REPO=scratch,
                           VERIF_REPLAY_DIR=os.path.join(scratch, 'replays'))
                p = subprocess.run([os.path.join(HERE, 'check'), c, '--seeds', '700',
                                    '--no-evidence', '--no-minimise', '--seconds', '60'],
                                   env=env, capture_output=True, text=True, cwd=HERE)
                sigs = [l.strip() for l in p.stdout.splitlines() if 'signature:' in l]
                print('%-48s %s exit %d %s' % (name, c, p.returncode,
                                               'quiet' if p.returncode == 0 else 'ALARM'),
                      sigs[:3])
                if p.returncode != 0:
                    ok = False
                    print(p.stdout[-1500:], p.stderr[-800:])
        finally:
            shutil.rmtree(scratch, ignore_errors=True)
    return 0 if ok else 1


if __name__ == '__main__':
    sys.exit(main())
